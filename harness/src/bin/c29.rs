//! C29 — vector search returns live, current, correctly ranked nodes.
//!
//! Histories of node creations (with / without the indexed label, a vector, a vector of the
//! wrong dimension, a non-vector value), vector updates, property removals, label additions
//! and removals, deletions (node ids get recycled) and interleaved searches are run on a real
//! `GraphStore`, either through Cypher (`QueryEngine`, `CALL db.index.vector.queryNodes`) or
//! through the `GraphStore` / `VectorIndexManager` API.  For every search the property's own
//! predicates are evaluated here in Rust against a plain map of the graph and a brute-force
//! ranking under the index's *declared* metric computed in f64; the case handed to Coq carries
//! the resulting rank order (integers; distances closer than the tolerance share a rank) as the
//! model's distance oracle, the node ids given by CREATE, the ids returned by each search and
//! the index length after every operation.
use samyama::graph::{GraphStore, Label, NodeId, PropertyValue};
use samyama::query::executor::Value;
use samyama::query::QueryEngine;
use samyama::vector::DistanceMetric;
use std::collections::{BTreeMap, BTreeSet, HashMap};
use vh::*;

const L: &str = "Doc";
const P: &str = "emb";

#[derive(Clone, Copy, Debug, PartialEq)]
enum Metric {
    Cosine,
    L2,
    Dot,
}

/// a value for the indexed property
#[derive(Clone, Debug, PartialEq)]
enum PV {
    Vec(usize), // pool index
    Other(u8),  // 0: string, 1: list with a string in it, 2: map-free boolean
}

#[derive(Clone, Debug)]
enum Op {
    Create(bool, Option<PV>),
    SetProp(u64, PV),
    RemoveProp(u64),
    AddLabel(u64),
    RemoveLabel(u64),
    Delete(u64),
    Search(usize, u64), // query index, k
    Noise(u64, u8),
}

#[derive(Clone, Debug)]
struct Setup {
    cypher: bool,
    metric: Metric,
    dim: usize,
    pool: Vec<Vec<f32>>,    // stored vectors (any dimension)
    queries: Vec<Vec<f32>>, // query vectors (any dimension)
    second_index: bool,     // also declare indexes on (Other, emb) and (Doc, other)
    variant: u64,           // picks among equivalent spellings
    /// per query: 0 random, 1 old position of a moved node, 2 new position of a moved node,
    /// 3 old position of a deleted node whose id was recycled
    qkind: Vec<u8>,
}

// ---------------- distances in f64 under the declared metric ----------------
fn d64(metric: Metric, q: &[f32], v: &[f32]) -> f64 {
    let mut dot = 0.0f64;
    let mut na = 0.0f64;
    let mut nb = 0.0f64;
    let mut l2 = 0.0f64;
    for (a, b) in q.iter().zip(v.iter()) {
        let (a, b) = (*a as f64, *b as f64);
        dot += a * b;
        na += a * a;
        nb += b * b;
        l2 += (a - b) * (a - b);
    }
    match metric {
        Metric::L2 => l2.sqrt(),
        Metric::Dot => 1.0 - dot,
        Metric::Cosine => {
            if na <= 0.0 || nb <= 0.0 {
                return 1.0; // the code's convention for a zero vector
            }
            let sim = dot / (na.sqrt() * nb.sqrt());
            if !sim.is_finite() {
                return f64::NAN;
            }
            (1.0 - sim.clamp(-1.0, 1.0)).max(0.0)
        }
    }
}

fn tol(d: f64) -> f64 {
    1e-5 * d.abs().max(1.0)
}

/// rank table of one query: pool index -> Some(rank) (ties share a rank) / None (non-finite or wrong dimension)
fn rank_row(s: &Setup, q: &[f32]) -> Vec<Option<u64>> {
    let mut ds: Vec<(usize, f64)> = Vec::new();
    let mut row = vec![None; s.pool.len()];
    if q.len() != s.dim {
        return row;
    }
    for (i, v) in s.pool.iter().enumerate() {
        if v.len() == s.dim {
            let d = d64(s.metric, q, v);
            if d.is_finite() {
                ds.push((i, d));
            }
        }
    }
    ds.sort_by(|a, b| a.1.partial_cmp(&b.1).unwrap());
    let mut rank = 0u64;
    let mut prev: Option<f64> = None;
    for (i, d) in ds {
        if let Some(p) = prev {
            if d - p > tol(d) {
                rank += 1;
            }
        }
        prev = Some(d);
        row[i] = Some(rank);
    }
    row
}

// ---------------- Cypher spelling ----------------
fn f_lit(x: f32, ints_ok: bool) -> String {
    if ints_ok && x.fract() == 0.0 && x.abs() < 1000.0 {
        format!("{}", x as i64)
    } else {
        format!("{:?}", x as f64)
    }
}
fn vec_lit(v: &[f32], ints_ok: bool) -> String {
    format!("[{}]", v.iter().map(|x| f_lit(*x, ints_ok)).collect::<Vec<_>>().join(", "))
}
fn cypher_ok(v: &[f32]) -> bool {
    v.iter().all(|x| x.is_finite())
}
fn pv_lit(s: &Setup, p: &PV, ints_ok: bool) -> String {
    match p {
        PV::Vec(i) => vec_lit(&s.pool[*i], ints_ok),
        PV::Other(0) => "'hello'".to_string(),
        PV::Other(1) => "[1.0, 'x']".to_string(),
        PV::Other(_) => "true".to_string(),
    }
}
fn pv_value(s: &Setup, p: &PV, as_array: bool) -> PropertyValue {
    match p {
        PV::Vec(i) => {
            if as_array {
                PropertyValue::Array(s.pool[*i].iter().map(|x| PropertyValue::Float(*x as f64)).collect())
            } else {
                PropertyValue::Vector(s.pool[*i].clone())
            }
        }
        PV::Other(0) => PropertyValue::String("hello".to_string()),
        PV::Other(1) => PropertyValue::Array(vec![PropertyValue::Float(1.0), PropertyValue::String("x".to_string())]),
        PV::Other(_) => PropertyValue::Boolean(true),
    }
}

fn int_of(v: Option<&Value>) -> Option<i64> {
    match v {
        Some(Value::Property(PropertyValue::Integer(i))) => Some(*i),
        _ => None,
    }
}
fn float_of(v: Option<&Value>) -> Option<f64> {
    match v {
        Some(Value::Property(PropertyValue::Float(f))) => Some(*f),
        Some(Value::Property(PropertyValue::Integer(i))) => Some(*i as f64),
        _ => None,
    }
}

// ---------------- the implementation under test ----------------
struct Sut {
    engine: QueryEngine,
    store: GraphStore,
}

enum Obs {
    Id(u64),
    Res(Option<Vec<(u64, f64)>>, String), // rows (node id, score) or the error text
    Nothing,
}

impl Sut {
    fn new(s: &Setup) -> Result<Sut, String> {
        let engine = QueryEngine::new();
        let mut store = GraphStore::new();
        if s.cypher {
            let sim = if s.metric == Metric::L2 { "l2" } else { "cosine" };
            let q = format!(
                "CREATE VECTOR INDEX ix FOR (n:{}) ON (n.{}) OPTIONS {{dimensions: {}, similarity: '{}'}}",
                L, P, s.dim, sim
            );
            engine.execute_mut(&q, &mut store, "default").map_err(|e| e.to_string())?;
        } else {
            let m = match s.metric {
                Metric::Cosine => DistanceMetric::Cosine,
                Metric::L2 => DistanceMetric::L2,
                Metric::Dot => DistanceMetric::InnerProduct,
            };
            store.create_vector_index(L, P, s.dim, m).map_err(|e| e.to_string())?;
        }
        if s.second_index {
            store.create_vector_index("Other", P, s.dim, DistanceMetric::Cosine).map_err(|e| e.to_string())?;
            store.create_vector_index(L, "other", 2, DistanceMetric::L2).map_err(|e| e.to_string())?;
        }
        Ok(Sut { engine, store })
    }

    fn index_len(&self) -> u64 {
        match self.store.vector_index.get_index(L, P) {
            Some(ix) => ix.read().unwrap().len() as u64,
            None => u64::MAX,
        }
    }

    fn run_mut(&mut self, q: &str) -> Result<samyama::query::executor::RecordBatch, String> {
        self.engine.execute_mut(q, &mut self.store, "default").map_err(|e| e.to_string())
    }

    fn apply(&mut self, s: &Setup, op: &Op, step: u64) -> Result<Obs, String> {
        let v = s.variant.wrapping_add(step);
        if s.cypher {
            match op {
                Op::Create(lbl, p) => {
                    let lab = if *lbl {
                        if v % 3 == 0 { ":Doc:Tag" } else { ":Doc" }
                    } else if v % 2 == 0 {
                        ":Other"
                    } else {
                        ""
                    };
                    let props = match p {
                        Some(pv) => format!("{{name: 'n{}', {}: {}}}", step, P, pv_lit(s, pv, v % 5 == 0)),
                        None => format!("{{name: 'n{}'}}", step),
                    };
                    let b = self.run_mut(&format!("CREATE (n{} {}) RETURN id(n)", lab, props))?;
                    let id = b.records.first().and_then(|r| int_of(r.get("id(n)"))).ok_or("CREATE returned no id")?;
                    Ok(Obs::Id(id as u64))
                }
                Op::SetProp(id, pv) => {
                    let lit = pv_lit(s, pv, v % 5 == 0);
                    let q = if v % 4 == 0 {
                        format!("MATCH (n) WHERE id(n) = {} SET n += {{{}: {}}}", id, P, lit)
                    } else {
                        format!("MATCH (n) WHERE id(n) = {} SET n.{} = {}", id, P, lit)
                    };
                    self.run_mut(&q)?;
                    Ok(Obs::Nothing)
                }
                Op::RemoveProp(id) => {
                    let q = if v % 4 == 0 {
                        format!("MATCH (n) WHERE id(n) = {} SET n = {{name: 'r{}'}}", id, step)
                    } else {
                        format!("MATCH (n) WHERE id(n) = {} REMOVE n.{}", id, P)
                    };
                    self.run_mut(&q)?;
                    Ok(Obs::Nothing)
                }
                Op::AddLabel(id) => {
                    self.run_mut(&format!("MATCH (n) WHERE id(n) = {} SET n:{}", id, L))?;
                    Ok(Obs::Nothing)
                }
                Op::RemoveLabel(id) => {
                    self.run_mut(&format!("MATCH (n) WHERE id(n) = {} REMOVE n:{}", id, L))?;
                    Ok(Obs::Nothing)
                }
                Op::Delete(id) => {
                    let kw = if v % 2 == 0 { "DELETE" } else { "DETACH DELETE" };
                    self.run_mut(&format!("MATCH (n) WHERE id(n) = {} {} n", id, kw))?;
                    Ok(Obs::Nothing)
                }
                Op::Noise(id, kind) => {
                    let q = match kind % 4 {
                        0 => format!("MATCH (n) WHERE id(n) = {} SET n.name = 'z{}'", id, step),
                        1 => format!("MATCH (n) WHERE id(n) = {} SET n:Tag", id),
                        2 => format!("MATCH (n) WHERE id(n) = {} REMOVE n:Tag", id),
                        _ => format!("MATCH (n) WHERE id(n) = {} SET n.other = [0.5, 1.5]", id),
                    };
                    self.run_mut(&q)?;
                    Ok(Obs::Nothing)
                }
                Op::Search(qi, k) => {
                    let q = format!(
                        "CALL db.index.vector.queryNodes('{}', '{}', {}, {}) YIELD node, score RETURN id(node), score",
                        L,
                        P,
                        vec_lit(&s.queries[*qi], false),
                        k
                    );
                    match self.engine.execute(&q, &self.store) {
                        Ok(b) => {
                            let mut rows = Vec::new();
                            for r in &b.records {
                                let id = int_of(r.get("id(node)")).ok_or("search row without id(node)")?;
                                let sc = float_of(r.get("score")).ok_or("search row without score")?;
                                rows.push((id as u64, sc));
                            }
                            Ok(Obs::Res(Some(rows), String::new()))
                        }
                        Err(e) => Ok(Obs::Res(None, e.to_string())),
                    }
                }
            }
        } else {
            let st = &mut self.store;
            match op {
                Op::Create(lbl, p) => {
                    let labels: Vec<Label> = if *lbl {
                        if v % 3 == 0 { vec![Label::new(L), Label::new("Tag")] } else { vec![Label::new(L)] }
                    } else if v % 2 == 0 {
                        vec![Label::new("Other")]
                    } else {
                        vec![]
                    };
                    let id = if v % 2 == 0 {
                        let mut props = HashMap::new();
                        props.insert("name".to_string(), PropertyValue::String(format!("n{}", step)));
                        if let Some(pv) = p {
                            props.insert(P.to_string(), pv_value(s, pv, v % 5 == 0));
                        }
                        st.create_node_with_properties("default", labels, props)
                    } else {
                        let id = st.create_node_with_labels(labels);
                        if let Some(pv) = p {
                            st.set_node_property("default", id, P, pv_value(s, pv, v % 5 == 0)).map_err(|e| e.to_string())?;
                        }
                        id
                    };
                    Ok(Obs::Id(id.as_u64()))
                }
                Op::SetProp(id, pv) => {
                    let _ = st.set_node_property("default", NodeId::new(*id), P, pv_value(s, pv, v % 5 == 0));
                    Ok(Obs::Nothing)
                }
                Op::RemoveProp(id) => {
                    st.remove_node_property(NodeId::new(*id), P);
                    Ok(Obs::Nothing)
                }
                Op::AddLabel(id) => {
                    let _ = st.add_label_to_node("default", NodeId::new(*id), L);
                    Ok(Obs::Nothing)
                }
                Op::RemoveLabel(id) => {
                    let _ = st.remove_label_from_node(NodeId::new(*id), &Label::new(L));
                    Ok(Obs::Nothing)
                }
                Op::Delete(id) => {
                    let _ = st.delete_node("default", NodeId::new(*id));
                    Ok(Obs::Nothing)
                }
                Op::Noise(id, kind) => {
                    let n = NodeId::new(*id);
                    match kind % 4 {
                        0 => {
                            let _ = st.set_node_property("default", n, "name", PropertyValue::String(format!("z{}", step)));
                        }
                        1 => {
                            let _ = st.add_label_to_node("default", n, "Tag");
                        }
                        2 => {
                            let _ = st.remove_label_from_node(n, &Label::new("Tag"));
                        }
                        _ => {
                            let _ = st.set_node_property("default", n, "other", PropertyValue::Vector(vec![0.5, 1.5]));
                        }
                    }
                    Ok(Obs::Nothing)
                }
                Op::Search(qi, k) => {
                    let r = if v % 2 == 0 {
                        st.vector_search(L, P, &s.queries[*qi], *k as usize)
                    } else {
                        st.vector_index.search(L, P, &s.queries[*qi], *k as usize)
                    };
                    match r {
                        Ok(rows) => Ok(Obs::Res(Some(rows.into_iter().map(|(n, d)| (n.as_u64(), d as f64)).collect()), String::new())),
                        Err(e) => Ok(Obs::Res(None, e.to_string())),
                    }
                }
            }
        }
    }
}

// ---------------- the reference graph (what the operations mean) ----------------
#[derive(Clone, Debug)]
struct RefNode {
    label: bool,
    prop: Option<PV>,
}

#[derive(Default)]
struct Reference {
    nodes: BTreeMap<u64, RefNode>,
}

impl Reference {
    fn has_entry(&self, s: &Setup, id: u64) -> bool {
        match self.nodes.get(&id) {
            Some(RefNode { label: true, prop: Some(PV::Vec(i)) }) => s.pool[*i].len() == s.dim,
            _ => false,
        }
    }
    fn apply(&mut self, op: &Op, created: Option<u64>) {
        match op {
            Op::Create(l, p) => {
                if let Some(id) = created {
                    self.nodes.insert(id, RefNode { label: *l, prop: p.clone() });
                }
            }
            Op::SetProp(id, p) => {
                if let Some(n) = self.nodes.get_mut(id) {
                    n.prop = Some(p.clone());
                }
            }
            Op::RemoveProp(id) => {
                if let Some(n) = self.nodes.get_mut(id) {
                    n.prop = None;
                }
            }
            Op::AddLabel(id) => {
                if let Some(n) = self.nodes.get_mut(id) {
                    n.label = true;
                }
            }
            Op::RemoveLabel(id) => {
                if let Some(n) = self.nodes.get_mut(id) {
                    n.label = false;
                }
            }
            Op::Delete(id) => {
                self.nodes.remove(id);
            }
            Op::Search(..) | Op::Noise(..) => {}
        }
    }

    /// The property's predicates on one search answer. `index_len`: the implementation's index size.
    fn judge(&self, s: &Setup, qi: usize, k: u64, rows: &[(u64, f64)], index_len: u64, row: &[Option<u64>]) -> Result<bool, String> {
        let q = &s.queries[qi];
        // eligible: live, labelled, vector of the index's dimension, finite declared distance
        let mut elig: BTreeMap<u64, (f64, u64)> = BTreeMap::new();
        for (id, n) in &self.nodes {
            if let (true, Some(PV::Vec(i))) = (n.label, &n.prop) {
                if s.pool[*i].len() == s.dim {
                    if let Some(r) = row[*i] {
                        elig.insert(*id, (d64(s.metric, q, &s.pool[*i]), r));
                    }
                }
            }
        }
        let mut seen = BTreeSet::new();
        let mut prev_rank: Option<u64> = None;
        let mut ties = false;
        for (id, score) in rows {
            // live / label / property
            match self.nodes.get(id) {
                None => return Err(format!("returned node {} which does not exist (deleted)", id)),
                Some(n) if !n.label => return Err(format!("returned node {} which does not carry :{}", id, L)),
                Some(n) => match &n.prop {
                    Some(PV::Vec(i)) if s.pool[*i].len() == s.dim => {}
                    other => return Err(format!("returned node {} whose {} is {:?}, not a vector of the index's dimension", id, P, other)),
                },
            }
            // at most once
            if !seen.insert(*id) {
                return Err(format!("returned node {} twice", id));
            }
            let (d, r) = match elig.get(id) {
                Some(x) => *x,
                None => return Err(format!("returned node {} whose declared distance is not finite", id)),
            };
            // ranked by the declared distance to the CURRENT vector
            if (score - d).abs() > 10.0 * tol(d) {
                return Err(format!(
                    "node {} reported at distance {} but the {:?} distance to its current vector is {}",
                    id, score, s.metric, d
                ));
            }
            if let Some(p) = prev_rank {
                if r < p {
                    return Err(format!("not sorted by {:?} distance: node {} (rank {}) after rank {}", s.metric, id, r, p));
                }
                if r == p {
                    ties = true;
                }
            }
            prev_rank = Some(r);
        }
        if rows.len() as u64 > k {
            return Err(format!("{} rows for k = {}", rows.len(), k));
        }
        if index_len <= 128 {
            let want = (k as usize).min(elig.len());
            if rows.len() != want {
                return Err(format!("{} rows, expected min(k = {}, {} eligible nodes) = {}", rows.len(), k, elig.len(), want));
            }
            let worst = rows.iter().map(|(id, _)| elig[id].1).max();
            for (id, (_, r)) in &elig {
                if !seen.contains(id) {
                    if let Some(w) = worst {
                        if *r < w {
                            return Err(format!("omitted node {} (rank {}) is nearer than a returned node (rank {})", id, r, w));
                        }
                    }
                }
            }
        }
        Ok(ties)
    }
}

// ---------------- Gallina ----------------
fn g_pv(s: &Setup, p: &PV) -> String {
    match p {
        PV::Vec(i) => format!("(PVec ({}, {}))", i, g_bool(s.pool[*i].len() == s.dim)),
        PV::Other(_) => "POther".to_string(),
    }
}
fn g_op(s: &Setup, o: &Op) -> String {
    match o {
        Op::Create(l, p) => format!("Create {} {}", g_bool(*l), g_opt(p.as_ref().map(|x| g_pv(s, x)))),
        Op::SetProp(id, p) => format!("SetProp {} {}", id, g_pv(s, p)),
        Op::RemoveProp(id) => format!("RemoveProp {}", id),
        Op::AddLabel(id) => format!("AddLabel {}", id),
        Op::RemoveLabel(id) => format!("RemoveLabel {}", id),
        Op::Delete(id) => format!("Delete {}", id),
        Op::Search(qi, k) => format!("Search ({}, {}) {}", qi, g_bool(s.queries[*qi].len() == s.dim), k),
        Op::Noise(..) => "Noise".to_string(),
    }
}

fn run_case(out: &mut Out, s: &Setup, ops: &[Op], kind: &str) {
    let idx = out.next_index();
    if !out.wants(idx) {
        out.skip();
        return;
    }
    let human = format!(
        "{} {} {:?} dim={} idx2={} var={} pool={:?} queries={:?} ops={:?}",
        kind,
        if s.cypher { "cypher" } else { "api" },
        s.metric,
        s.dim,
        s.second_index,
        s.variant,
        s.pool,
        s.queries,
        ops
    );
    let rows_tbl: Vec<Vec<Option<u64>>> = s.queries.iter().map(|q| rank_row(s, q)).collect();
    let mut sut = match Sut::new(s) {
        Ok(x) => x,
        Err(e) => {
            let i = out.case("([], [])".to_string(), human.clone(), false);
            out.fail(i, &human, &format!("index creation failed: {}", e), None);
            return;
        }
    };
    let mut reference = Reference::default();
    let mut obs_g: Vec<String> = Vec::new();
    let mut bad: Option<String> = None;
    let mut deleted_any = false;
    for (step, op) in ops.iter().enumerate() {
        // generator health, judged on the reference before the operation
        match op {
            Op::SetProp(id, PV::Vec(_)) if reference.has_entry(s, *id) => out.count("update_of_indexed"),
            Op::SetProp(id, PV::Other(_)) if reference.has_entry(s, *id) => out.count("unvector_of_indexed"),
            Op::RemoveProp(id) if reference.has_entry(s, *id) => out.count("removeprop_of_indexed"),
            Op::RemoveLabel(id) if reference.has_entry(s, *id) => out.count("removelabel_of_indexed"),
            Op::Delete(id) if reference.has_entry(s, *id) => {
                deleted_any = true;
                out.count("delete_of_indexed")
            }
            Op::Delete(id) if reference.nodes.contains_key(id) => deleted_any = true,
            Op::Create(..) if deleted_any => out.count("create_after_delete"),
            _ => {}
        }
        let r = catch(std::panic::AssertUnwindSafe(|| sut.apply(s, op, step as u64)));
        let o = match r {
            Ok(Ok(o)) => o,
            Ok(Err(e)) => {
                if bad.is_none() {
                    bad = Some(format!("step {} {:?}: statement failed: {}", step, op, e));
                }
                Obs::Nothing
            }
            Err(p) => {
                if bad.is_none() {
                    bad = Some(format!("step {} {:?}: panic: {}", step, op, p));
                }
                Obs::Nothing
            }
        };
        let len = sut.index_len();
        let created = if let Obs::Id(id) = &o { Some(*id) } else { None };
        reference.apply(op, created);
        let og = match (&o, op) {
            (Obs::Id(id), _) => format!("CId {}", id),
            (Obs::Res(Some(rows), _), Op::Search(qi, k)) => {
                out.count("searches");
                if !rows.is_empty() {
                    out.count("searches_nonempty");
                }
                if len > 128 {
                    out.count("searches_above_128");
                    match s.qkind.get(*qi).copied().unwrap_or(0) {
                        1 => out.count("hnsw_query_at_old_position_of_moved_node"),
                        2 => out.count("hnsw_query_at_new_position_of_moved_node"),
                        3 => out.count("hnsw_query_at_old_position_of_recycled_id"),
                        _ => {}
                    }
                }
                match reference.judge(s, *qi, *k, rows, len, &rows_tbl[*qi]) {
                    Ok(ties) => {
                        if ties {
                            out.count("results_with_ties");
                        }
                        if (rows.len() as u64) == *k && *k > 0 {
                            out.count("truncated_to_k");
                        }
                    }
                    Err(e) => {
                        if bad.is_none() {
                            bad = Some(format!("step {} {:?}: {} (answer {:?})", step, op, e, rows));
                        }
                    }
                }
                format!("CRes (Some {})", g_list(rows.iter().map(|(id, _)| format!("{}", id))))
            }
            (Obs::Res(None, e), Op::Search(qi, _)) => {
                out.count("searches");
                if s.queries[*qi].len() == s.dim {
                    if bad.is_none() {
                        bad = Some(format!("step {} {:?}: search failed: {}", step, op, e));
                    }
                } else {
                    out.count("query_wrong_dimension");
                }
                "CRes None".to_string()
            }
            _ => "CNone".to_string(),
        };
        obs_g.push(format!("({}, {}, {})", g_op(s, op), og, if len == u64::MAX { 999_999_999 } else { len }));
    }
    match s.metric {
        Metric::Cosine => out.count("metric_cosine"),
        Metric::L2 => out.count("metric_l2"),
        Metric::Dot => out.count("metric_dot"),
    }
    if s.cypher {
        out.count("through_cypher");
    } else {
        out.count("through_api");
    }
    out.count_n("ops", ops.len() as u64);
    let table = g_list(rows_tbl.iter().enumerate().map(|(qi, row)| {
        format!(
            "({}, {})",
            qi,
            g_list(row.iter().enumerate().map(|(vi, r)| format!("({}, {})", vi, g_opt(r.map(|x| format!("{}", x))))))
        )
    }));
    let g = format!("({}, {})", table, g_list(obs_g.into_iter()));
    let i = out.case(g, human.clone(), ops.len() > 1);
    if let Some(b) = bad {
        out.fail(i, &human, &b, None);
    }
}

// ---------------- generators ----------------
const GRID: [f32; 9] = [-2.0, -1.0, -0.5, 0.0, 0.5, 1.0, 2.0, 3.0, 0.25];

fn gen_vec(r: &mut Rng, dim: usize, fine: bool) -> Vec<f32> {
    (0..dim)
        .map(|_| if fine { (r.range(0, 32) as f32 - 16.0) * 0.25 } else { *r.pick(&GRID) })
        .collect()
}

fn gen_setup(r: &mut Rng, npool: usize, fine: bool) -> Setup {
    let cypher = r.chance(1, 2);
    let metric = if cypher {
        if r.chance(1, 2) { Metric::L2 } else { Metric::Cosine }
    } else {
        match r.below(5) {
            0 | 1 => Metric::L2,
            2 | 3 => Metric::Cosine,
            _ => Metric::Dot,
        }
    };
    let dim = r.range(2, 4) as usize;
    let mut pool: Vec<Vec<f32>> = Vec::new();
    while pool.len() < npool {
        let c = r.below(20);
        let v = if c == 0 && !pool.is_empty() {
            pool[r.below(pool.len() as u64) as usize].clone() // exact duplicate: a tie under every metric
        } else if c == 1 && !pool.is_empty() {
            pool[r.below(pool.len() as u64) as usize].iter().map(|x| x * 2.0).collect() // same direction: cosine tie
        } else if c == 2 {
            let wd = if r.chance(1, 2) { dim + 1 } else { dim - 1 };
            gen_vec(r, wd, fine) // wrong dimension
        } else if c == 3 && !cypher {
            let mut v = gen_vec(r, dim, fine);
            let j = r.below(dim as u64) as usize;
            v[j] = if r.chance(1, 2) { f32::NAN } else { f32::INFINITY }; // non-finite distance
            v
        } else if c == 4 {
            vec![0.0; dim] // zero vector
        } else if c == 5 {
            vec![] // empty list: a vector of dimension 0
        } else {
            gen_vec(r, dim, fine)
        };
        pool.push(v);
    }
    let nq = r.range(1, 3) as usize;
    let mut queries: Vec<Vec<f32>> = (0..nq).map(|_| gen_vec(r, dim, fine)).collect();
    if r.chance(1, 12) {
        queries.push(gen_vec(r, dim + 1, fine)); // a query of the wrong dimension: error expected
    }
    if r.chance(1, 6) && !pool.is_empty() {
        let v = &pool[r.below(pool.len() as u64) as usize];
        if v.len() == dim && cypher_ok(v) {
            queries.push(v.clone()); // query equal to a stored vector
        }
    }
    Setup { cypher, metric, dim, pool, queries, second_index: r.chance(1, 4), variant: r.below(1000), qkind: Vec::new() }
}

/// An index above 128 entries (the HNSW path): nodes are moved far away from their old vector,
/// deleted with their id recycled by a new node elsewhere, and the index is queried at the OLD
/// position (where hnsw_rs still holds the stale point), at the new position and at random.
fn gen_hnsw(r: &mut Rng) -> (Setup, Vec<Op>) {
    let cypher = r.chance(1, 3);
    let metric = if r.chance(1, 2) { Metric::L2 } else { Metric::Cosine };
    let dim = r.range(2, 4) as usize;
    let target = r.range(129, 260) as usize;
    let mut pool: Vec<Vec<f32>> = Vec::new();
    for _ in 0..target {
        let mut v = gen_vec(r, dim, true);
        if v.iter().all(|x| *x == 0.0) {
            v[0] = 1.0;
        }
        pool.push(v);
    }
    let far = |v: &Vec<f32>, r: &mut Rng| -> Vec<f32> {
        match metric {
            Metric::L2 => {
                let mut w = v.clone();
                w[0] += 40.0 + r.range(0, 40) as f32 * 0.5;
                w[1] -= 30.0 + r.range(0, 40) as f32 * 0.5;
                w
            }
            _ => v.iter().map(|x| -x).collect(),
        }
    };
    let mut queries: Vec<Vec<f32>> = vec![gen_vec(r, dim, true)];
    let mut qkind: Vec<u8> = vec![0];
    // node id i+1 holds pool[i]
    let mut ops: Vec<Op> = (0..target).map(|i| Op::Create(true, Some(PV::Vec(i)))).collect();
    ops.push(Op::Search(0, r.range(1, 10)));
    let mut touched: BTreeSet<usize> = BTreeSet::new();
    let mut old_queries: Vec<usize> = Vec::new();
    for _ in 0..r.range(5, 10) {
        let i = r.below(target as u64) as usize;
        if !touched.insert(i) {
            continue;
        }
        let fv = far(&pool[i], r);
        pool.push(fv.clone());
        ops.push(Op::SetProp(i as u64 + 1, PV::Vec(pool.len() - 1)));
        queries.push(pool[i].clone());
        qkind.push(1);
        old_queries.push(queries.len() - 1);
        ops.push(Op::Search(queries.len() - 1, r.range(1, 10)));
        if r.chance(1, 2) {
            queries.push(fv);
            qkind.push(2);
            ops.push(Op::Search(queries.len() - 1, r.range(1, 10)));
        }
    }
    for _ in 0..r.range(2, 5) {
        let i = r.below(target as u64) as usize;
        if !touched.insert(i) {
            continue;
        }
        ops.push(Op::Delete(i as u64 + 1));
        let fv = far(&pool[i], r);
        pool.push(fv);
        ops.push(Op::Create(true, Some(PV::Vec(pool.len() - 1)))); // takes the freed id
        queries.push(pool[i].clone());
        qkind.push(3);
        old_queries.push(queries.len() - 1);
        ops.push(Op::Search(queries.len() - 1, r.range(1, 10)));
    }
    for _ in 0..2 {
        queries.push(gen_vec(r, dim, true));
        qkind.push(0);
        ops.push(Op::Search(queries.len() - 1, r.range(1, 20)));
    }
    // once more at the old positions, after all the other changes
    for qi in old_queries {
        if r.chance(1, 2) {
            ops.push(Op::Search(qi, r.range(1, 25)));
        }
    }
    let s = Setup { cypher, metric, dim, pool, queries, second_index: false, variant: r.below(1000), qkind };
    (s, ops)
}

fn gen_pv(r: &mut Rng, s: &Setup) -> PV {
    if r.chance(1, 8) {
        PV::Other(r.below(3) as u8)
    } else {
        PV::Vec(r.below(s.pool.len() as u64) as usize)
    }
}

fn gen_ops(r: &mut Rng, s: &Setup, n: usize, first_creates: usize) -> Vec<Op> {
    let mut ops = Vec::new();
    let mut made = 0u64;
    for i in 0..n {
        let hi = made + 1;
        let id = r.range(1, hi.max(1));
        let c = if i < first_creates { 0 } else { r.below(100) };
        let op = if c < 22 {
            made += 1;
            let p = if r.chance(1, 10) { None } else { Some(gen_pv(r, s)) };
            Op::Create(r.chance(5, 6), p)
        } else if c < 40 {
            Op::SetProp(id, gen_pv(r, s))
        } else if c < 46 {
            Op::RemoveProp(id)
        } else if c < 52 {
            Op::AddLabel(id)
        } else if c < 58 {
            Op::RemoveLabel(id)
        } else if c < 66 {
            Op::Delete(id)
        } else if c < 71 {
            Op::Noise(id, r.below(4) as u8)
        } else {
            let k = match r.below(12) {
                0 => 0,
                1 => 1_000_000,
                _ => r.range(1, 6),
            };
            Op::Search(r.below(s.queries.len() as u64) as usize, k)
        };
        ops.push(op);
    }
    ops.push(Op::Search(0, r.range(1, 8)));
    ops
}

fn main() {
    quiet_panics();
    let args = parse_args();
    let mut out = Out::new(&args, "From Verif Require Import Vector.", "Vector.case", "Vector.check_case", if args.thorough { 150 } else { 60 });
    out.rule = "exhaustive: every sequence of <=3 operations from an 8-operation alphabet over two nodes \
                (create labelled/unlabelled, update vector, set non-vector, remove property, add/remove label, delete), \
                a search after every operation, through the API and through Cypher, L2 and cosine; random: histories of \
                8-30 operations (create / update / non-vector / wrong-dimension / remove property / relabel / delete with id \
                reuse / noise / search with k in {0,1..6,10^6}) over pools of 4-10 vectors of dimension 2-4 (duplicates, \
                scaled copies, zero, empty, NaN/inf components through the API), metrics cosine/L2 (+ inner product through \
                the API), both entry points; indexes of 100-128 entries (quick) and 129-400 entries (thorough, HNSW path, \
                incl. enough updates to force a rebuild); hnsw: in both tiers indexes of 129-260 entries (L2 / cosine) where nodes \
                are moved far away or deleted with their id recycled, queried at the old position, the new position and at \
                random (live / unique / current distance / sorted judged on every answer). Non-trivial = more than one operation; distinct by case text."
        .to_string();

    // ---- exhaustive small scope ----
    let ex_pool: Vec<Vec<f32>> = vec![vec![1.0, 0.0], vec![10.0, 1.0], vec![0.0, 1.0]];
    let alphabet: Vec<Op> = vec![
        Op::Create(true, Some(PV::Vec(0))),
        Op::Create(false, Some(PV::Vec(1))),
        Op::SetProp(1, PV::Vec(2)),
        Op::SetProp(1, PV::Other(0)),
        Op::RemoveProp(1),
        Op::AddLabel(2),
        Op::RemoveLabel(1),
        Op::Delete(1),
    ];
    let mut seqs: Vec<Vec<usize>> = Vec::new();
    for a in 0..alphabet.len() {
        seqs.push(vec![a]);
        for b in 0..alphabet.len() {
            seqs.push(vec![a, b]);
            for c in 0..alphabet.len() {
                seqs.push(vec![a, b, c]);
            }
        }
    }
    for (n, sq) in seqs.iter().enumerate() {
        let s = Setup {
            cypher: n % 2 == 0,
            metric: if (n / 2) % 2 == 0 { Metric::L2 } else { Metric::Cosine },
            dim: 2,
            pool: ex_pool.clone(),
            queries: vec![vec![2.0, 0.5]],
            second_index: false,
            variant: 1 + (n as u64 % 7),
            qkind: Vec::new(),
        };
        let mut ops = vec![Op::Create(true, Some(PV::Vec(1)))]; // node 1 exists from the start
        ops.push(Op::Search(0, 5));
        for a in sq {
            ops.push(alphabet[*a].clone());
            ops.push(Op::Search(0, 5));
        }
        run_case(&mut out, &s, &ops, "exhaustive");
    }

    // ---- random histories ----
    let n_small: u64 = if args.thorough { 9000 } else { 900 };
    let big_every: u64 = if args.thorough { 120 } else { 180 };
    let hnsw_every: u64 = if args.thorough { 150 } else { 75 };
    for c in 0..n_small {
        let mut r = Rng::for_case(args.seed, c);
        if c % hnsw_every == 37 {
            let (s, ops) = gen_hnsw(&mut r);
            out.count("hnsw_cases");
            match s.metric {
                Metric::L2 => out.count("hnsw_cases_l2"),
                _ => out.count("hnsw_cases_cosine"),
            }
            run_case(&mut out, &s, &ops, "hnsw");
            continue;
        }
        if c % big_every == big_every - 1 {
            // a large index: 100-128 entries (quick), 129-400 (thorough)
            let (lo, hi) = if args.thorough { (129, 400) } else { (100, 128) };
            let target = r.range(lo, hi) as usize;
            let mut s = gen_setup(&mut r, target + 8, true);
            s.second_index = false;
            if args.thorough && s.cypher && r.chance(1, 2) {
                s.cypher = false; // the API is much faster for hundreds of statements
            }
            // make the first `target` pool vectors indexable and finite
            for i in 0..target {
                if s.pool[i].len() != s.dim || !cypher_ok(&s.pool[i]) {
                    s.pool[i] = gen_vec(&mut r, s.dim, true);
                }
            }
            let mut ops: Vec<Op> = (0..target).map(|i| Op::Create(true, Some(PV::Vec(i)))).collect();
            ops.push(Op::Search(0, r.range(1, 12)));
            let churn = if args.thorough && r.chance(1, 4) { target + 140 } else { r.range(10, 40) as usize };
            for _ in 0..churn {
                let id = r.range(1, target as u64 + 3);
                let op = match r.below(10) {
                    0 | 1 | 2 | 3 => Op::SetProp(id, gen_pv(&mut r, &s)),
                    4 => Op::Delete(id),
                    5 => Op::RemoveLabel(id),
                    6 => Op::Create(true, Some(gen_pv(&mut r, &s))),
                    7 => Op::RemoveProp(id),
                    _ => Op::Search(r.below(s.queries.len() as u64) as usize, r.range(1, 15)),
                };
                ops.push(op);
            }
            ops.push(Op::Search(0, r.range(1, 20)));
            ops.push(Op::Search(0, 1_000_000));
            run_case(&mut out, &s, &ops, "large");
        } else {
            let npool = r.range(4, 10) as usize;
            let s = gen_setup(&mut r, npool, false);
            let n = r.range(8, 30) as usize;
            let first = r.range(1, 4) as usize;
            let ops = gen_ops(&mut r, &s, n, first);
            run_case(&mut out, &s, &ops, "random");
        }
    }
    out.finish();
}
