//! C27 — PageRank and CDLP follow their specified iteration.
//!
//! Small graphs: the implementation's scores (exact value of every f64) and labels are printed
//! for the Coq model (`Iterative.check_case`: PageRank over exact rationals within 1e-9, CDLP
//! exactly).  All graphs: compared here with straightforward sequential references, the mass law
//! is checked, and graphs on both sides of the 1000-node parallel threshold are re-run in child
//! processes with rayon pools of 1 and 8 threads (RAYON_NUM_THREADS) and compared.
use samyama_graph_algorithms::{cdlp, page_rank, CdlpConfig, GraphView, PageRankConfig};
use std::collections::{BTreeMap, HashMap};
use vh::*;

#[derive(Clone, Debug)]
struct G {
    n: usize,
    es: Vec<(usize, usize)>, // CSR order: sources ascending
    ids: Vec<u64>,
}

impl G {
    fn new(n: usize, mut es: Vec<(usize, usize)>, ids: Vec<u64>) -> G {
        es.sort_by_key(|e| e.0); // stable: keeps the order of each adjacency list
        G { n, es, ids }
    }
    fn view(&self) -> GraphView {
        let node_to_index: HashMap<u64, usize> = self.ids.iter().enumerate().map(|(i, &x)| (x, i)).collect();
        let mut outgoing = vec![Vec::new(); self.n];
        let mut incoming = vec![Vec::new(); self.n];
        for &(u, v) in &self.es {
            outgoing[u].push(v);
            incoming[v].push(u);
        }
        GraphView::from_adjacency_list(self.n, self.ids.clone(), node_to_index, outgoing, incoming, None)
    }
    fn out_deg(&self) -> Vec<usize> {
        let mut d = vec![0; self.n];
        for &(u, _) in &self.es {
            d[u] += 1;
        }
        d
    }
    fn preds(&self) -> Vec<Vec<usize>> {
        let mut p = vec![Vec::new(); self.n];
        for &(u, v) in &self.es {
            p[v].push(u);
        }
        p
    }
    fn succs(&self) -> Vec<Vec<usize>> {
        let mut p = vec![Vec::new(); self.n];
        for &(u, v) in &self.es {
            p[u].push(v);
        }
        p
    }
}

#[derive(Clone, Copy, Debug)]
struct PrCfg {
    d: f64,
    iters: usize,
    tol: f64,
    dangling: bool,
}

fn run_pr(g: &G, view: &GraphView, c: PrCfg) -> Vec<f64> {
    let r = page_rank(
        view,
        PageRankConfig { damping_factor: c.d, iterations: c.iters, tolerance: c.tol, dangling_redistribution: c.dangling },
    );
    (0..g.n).map(|i| *r.get(&g.ids[i]).unwrap_or(&f64::NAN)).collect()
}

/// sequential f64 reference of the LDBC iteration; also reports whether any iteration's L1
/// difference came within 1e-9 of the tolerance (where f64 and exact arithmetic may stop at
/// different iterations)
fn pr_reference(g: &G, c: PrCfg) -> (Vec<f64>, bool) {
    let n = g.n;
    if n == 0 {
        return (vec![], false);
    }
    let od = g.out_deg();
    let preds = g.preds();
    let mut s = vec![1.0 / n as f64; n];
    let base = (1.0 - c.d) / n as f64;
    let mut near = false;
    for _ in 0..c.iters {
        let dang = if c.dangling {
            let mut m = 0.0;
            for i in 0..n {
                if od[i] == 0 {
                    m += s[i];
                }
            }
            m / n as f64
        } else {
            0.0
        };
        let mut next = vec![0.0; n];
        let mut diff = 0.0;
        for i in 0..n {
            let mut inc = 0.0;
            for &u in &preds[i] {
                if od[u] > 0 {
                    inc += s[u] / od[u] as f64;
                }
            }
            next[i] = base + c.d * (inc + dang);
            diff += (next[i] - s[i]).abs();
        }
        s = next;
        if c.tol > 0.0 && (diff - c.tol).abs() <= 1e-9 {
            near = true;
        }
        if diff < c.tol {
            break;
        }
    }
    (s, near)
}

fn cdlp_reference(g: &G, max_iter: usize) -> (Vec<u64>, usize) {
    let n = g.n;
    if n == 0 {
        return (vec![], 0);
    }
    let (succs, preds) = (g.succs(), g.preds());
    let mut lab = g.ids.clone();
    let mut iters = 0;
    for _ in 0..max_iter {
        iters += 1;
        let mut next = lab.clone();
        for v in 0..n {
            let mut cnt: BTreeMap<u64, usize> = BTreeMap::new();
            for &u in succs[v].iter().chain(preds[v].iter()) {
                *cnt.entry(lab[u]).or_insert(0) += 1;
            }
            if let Some(&mx) = cnt.values().max() {
                // BTreeMap iterates labels ascending: the first of maximal count is the smallest
                next[v] = *cnt.iter().find(|(_, &c)| c == mx).unwrap().0;
            }
        }
        let same = next == lab;
        lab = next;
        if same {
            break;
        }
    }
    (lab, iters)
}

fn run_cdlp(g: &G, view: &GraphView, max_iter: usize) -> (Vec<u64>, usize) {
    let r = cdlp(view, &CdlpConfig { max_iterations: max_iter });
    ((0..g.n).map(|i| *r.labels.get(&g.ids[i]).unwrap_or(&u64::MAX)).collect(), r.iterations)
}

// ---- exact value of an f64 as a Coq rational ----
fn dec_double(d: &mut Vec<u8>) {
    let mut carry = 0;
    for x in d.iter_mut() {
        let v = *x * 2 + carry;
        *x = v % 10;
        carry = v / 10;
    }
    if carry > 0 {
        d.push(carry);
    }
}
fn pow2_dec(k: u32) -> String {
    let mut d = vec![1u8];
    for _ in 0..k {
        dec_double(&mut d);
    }
    d.iter().rev().map(|x| (b'0' + x) as char).collect()
}
fn g_q(x: f64) -> Option<String> {
    if !x.is_finite() {
        return None;
    }
    let bits = x.to_bits();
    let neg = bits >> 63 == 1;
    let e = ((bits >> 52) & 0x7ff) as i32;
    let frac = bits & ((1u64 << 52) - 1);
    let (mut m, mut k) = if e == 0 { (frac, 1074i32) } else { (frac | (1u64 << 52), 1075 - e) };
    if m == 0 {
        return Some("(Qmake 0 1)".into());
    }
    while k > 0 && m % 2 == 0 {
        m /= 2;
        k -= 1;
    }
    let num = if k < 0 { format!("{}", (m as u128) << ((-k) as u32).min(60)) } else { format!("{}", m) };
    if k < -60 {
        return None;
    }
    let den = if k > 0 { pow2_dec(k as u32) } else { "1".to_string() };
    Some(if neg { format!("(Qmake (-{}) {})", num, den) } else { format!("(Qmake {} {})", num, den) })
}

const CFGS: [PrCfg; 7] = [
    PrCfg { d: 0.85, iters: 20, tol: 0.0001, dangling: true }, // the default configuration
    PrCfg { d: 0.85, iters: 20, tol: 0.0001, dangling: false },
    PrCfg { d: 0.75, iters: 20, tol: 0.0001, dangling: true },
    PrCfg { d: 0.75, iters: 20, tol: 0.0001, dangling: false },
    PrCfg { d: 0.5, iters: 6, tol: 0.0, dangling: true },
    PrCfg { d: 0.85, iters: 4, tol: 0.0, dangling: false },
    PrCfg { d: 0.85, iters: 3, tol: 0.0, dangling: true },
];
/// exact evaluation of 20 iterations with d = 0.85 (a 53-bit dyadic) is expensive in Coq:
/// the two default configurations go to Coq for one graph in `every`, the cheap ones always
fn cfgs_for(k: usize, every: usize) -> Vec<PrCfg> {
    if k % every == 0 {
        CFGS.to_vec()
    } else {
        CFGS[2..].to_vec()
    }
}

/// predicate + references on one graph; returns the failures
fn check_graph(out: &mut Out, g: &G, cfgs: &[PrCfg], max_iters: &[usize], pr_obs: &mut Vec<(PrCfg, Vec<f64>, bool)>, cd_obs: &mut Vec<(usize, Vec<u64>, usize)>) -> Vec<String> {
    let view = g.view();
    let mut bad = Vec::new();
    for &c in cfgs {
        let s = run_pr(g, &view, c);
        let (r, near) = pr_reference(g, c);
        if near {
            out.count("pr_near_tolerance");
        }
        if s.len() != r.len() || s.iter().any(|x| !x.is_finite()) {
            bad.push(format!("page_rank {:?}: malformed result {:?}", c, s));
        } else if !near {
            let worst = s.iter().zip(&r).map(|(a, b)| (a - b).abs()).fold(0.0, f64::max);
            if worst > 1e-12 {
                bad.push(format!("page_rank {:?}: differs from the sequential LDBC iteration by {:e}", c, worst));
            }
            if s.iter().zip(&r).all(|(a, b)| a.to_bits() == b.to_bits()) {
                out.count("pr_bit_exact_vs_reference");
            }
        }
        if c.dangling && g.n > 0 {
            let sum: f64 = s.iter().sum();
            if (sum - 1.0).abs() > 1e-9 {
                bad.push(format!("page_rank {:?}: scores sum to {} with dangling redistribution", c, sum));
            }
            out.count("pr_mass_checked");
        }
        if g.out_deg().iter().any(|&d| d == 0) && c.dangling {
            out.count("pr_with_dangling_nodes");
        }
        pr_obs.push((c, s, near));
    }
    for &mi in max_iters {
        let (l, it) = run_cdlp(g, &view, mi);
        let (rl, rit) = cdlp_reference(g, mi);
        if l != rl || it != rit {
            bad.push(format!("cdlp max_iterations={}: labels {:?} after {} iterations, synchronous reference {:?} after {}", mi, &l[..l.len().min(12)], it, &rl[..rl.len().min(12)], rit));
        }
        if it > 1 && it < mi {
            out.count("cdlp_converged_after_changes");
        }
        if it == mi && mi > 1 {
            out.count("cdlp_hit_iteration_limit");
        }
        cd_obs.push((mi, l, it));
    }
    bad
}

fn emit(out: &mut Out, g: &G, cfgs: &[PrCfg], max_iters: &[usize], tag: &str) {
    let idx = out.next_index();
    if !out.wants(idx) {
        out.skip();
        return;
    }
    let human = format!("{} n={} ids={:?} es={:?}", tag, g.n, g.ids, g.es);
    let mut pr_obs = Vec::new();
    let mut cd_obs = Vec::new();
    let mut bad = check_graph(out, g, cfgs, max_iters, &mut pr_obs, &mut cd_obs);
    {
        // the configurations not sent to Coq are still checked against the Rust references
        let rest: Vec<PrCfg> = CFGS.iter().cloned().filter(|c| !cfgs.iter().any(|d| d.d == c.d && d.iters == c.iters && d.dangling == c.dangling)).collect();
        let (mut a, mut b) = (Vec::new(), Vec::new());
        bad.extend(check_graph(out, g, &rest, &[], &mut a, &mut b));
    }
    let mut prs = Vec::new();
    for (c, s, near) in &pr_obs {
        if *near {
            out.count("pr_skipped_near_tolerance");
            continue;
        }
        let qs: Option<Vec<String>> = s.iter().map(|x| g_q(*x)).collect();
        if let (Some(qs), Some(d), Some(t)) = (qs, g_q(c.d), g_q(c.tol)) {
            prs.push(format!("({}, {}, {}, {}, {})", d, c.iters, t, g_bool(c.dangling), g_list(qs)));
            out.count("pr_runs_to_coq");
        }
    }
    let cds: Vec<String> = cd_obs
        .iter()
        .map(|(mi, l, it)| format!("({}, {}, {})", mi, g_list(l.iter().map(|x| x.to_string())), it))
        .collect();
    out.count_n("cdlp_runs_to_coq", cds.len() as u64);
    let term = format!(
        "({}, {}, {}, {}, {})",
        g.n,
        g_list(g.es.iter().map(|(u, v)| format!("({}, {})", u, v))),
        g_list(g.ids.iter().map(|x| x.to_string())),
        g_list(prs),
        g_list(cds)
    );
    let i = out.case(term, human.clone(), !g.es.is_empty());
    if !bad.is_empty() {
        out.fail(i, &human, &bad.join(" | "), None);
    }
}

fn random_graph(r: &mut Rng, n: usize, m: usize, dangling_share: u64) -> G {
    // a share of the nodes gets no out-edges (dangling), the rest random targets, parallel edges and loops allowed
    let dang: Vec<bool> = (0..n).map(|_| r.below(100) < dangling_share).collect();
    let srcs: Vec<usize> = (0..n).filter(|&i| !dang[i]).collect();
    let mut es = Vec::new();
    if !srcs.is_empty() {
        for _ in 0..m {
            let u = *r.pick(&srcs);
            let v = r.below(n as u64) as usize;
            es.push((u, v));
            if r.chance(1, 8) {
                es.push((u, v));
            }
        }
    }
    let mut ids: Vec<u64> = (0..n as u64).map(|i| 10 + 3 * i).collect();
    for i in (1..n).rev() {
        let j = r.below(i as u64 + 1) as usize;
        ids.swap(i, j);
    }
    G::new(n, es, ids)
}

fn large_graphs(seed: u64) -> Vec<G> {
    let mut r = Rng::new(seed ^ 0xC27);
    let mut v = Vec::new();
    for &n in &[999usize, 1000, 1500] {
        v.push(random_graph(&mut r, n, 3 * n, 10));
        v.push(random_graph(&mut r, n, n, 40));
    }
    v
}

const LARGE_CFGS: [PrCfg; 2] =
    [PrCfg { d: 0.85, iters: 20, tol: 0.0001, dangling: true }, PrCfg { d: 0.85, iters: 8, tol: 0.0, dangling: false }];

fn large_results(seed: u64) -> Vec<String> {
    let mut lines = Vec::new();
    for (gi, g) in large_graphs(seed).iter().enumerate() {
        let view = g.view();
        for (ci, c) in LARGE_CFGS.iter().enumerate() {
            let s = run_pr(g, &view, *c);
            let hex: Vec<String> = s.iter().map(|x| format!("{:016x}", x.to_bits())).collect();
            lines.push(format!("P {} {} {}", gi, ci, hex.join(",")));
        }
        let (l, it) = run_cdlp(g, &view, 15);
        let ls: Vec<String> = l.iter().map(|x| x.to_string()).collect();
        lines.push(format!("C {} {} {}", gi, it, ls.join(",")));
    }
    lines
}

fn main() {
    let args = parse_args();
    if std::env::var("C27_CHILD").is_ok() {
        for l in large_results(args.seed) {
            println!("{}", l);
        }
        return;
    }
    quiet_panics();
    let mut out = Out::new(&args, "From Coq Require Import QArith.\nFrom Verif Require Import Iterative.", "Iterative.case", "Iterative.check_case", if args.thorough { 40 } else { 24 });
    out.rule = "Coq-evaluated: every directed multigraph on 1..2 nodes with 0/1/2 parallel edges per ordered pair \
                (self-loops included), every simple digraph with self-loops on 3 nodes (2^9), random multigraphs on \
                4..7 nodes with dangling nodes; PageRank with (d,iterations,tolerance,dangling) in {(0.75,20,1e-4,on/off),\
                (0.5,6,0,on),(0.85,4,0,off),(0.85,3,0,on)} on every graph and the default (0.85,20,1e-4,on/off) on one graph in 48 (quick) / 8 (thorough) (runs whose L1 difference comes within 1e-9 of the \
                tolerance are not sent to Coq), CDLP with max_iterations in {1,10} and permuted node ids. Rust-only: \
                random graphs of 20..400 nodes and six graphs of 999/1000/1500 nodes, also re-run in child processes \
                with RAYON_NUM_THREADS=1 and 8. Non-trivial = has an edge; distinct by case text."
        .to_string();
    let mut r = Rng::new(args.seed);
    let perm_ids = |r: &mut Rng, n: usize| -> Vec<u64> {
        let mut ids: Vec<u64> = (0..n as u64).map(|i| 10 + 3 * i).collect();
        for i in (1..n).rev() {
            let j = r.below(i as u64 + 1) as usize;
            ids.swap(i, j);
        }
        ids
    };
    let every = if args.thorough { 8 } else { 48 };
    let mut gk = 0usize;
    // n = 0
    emit(&mut out, &G::new(0, vec![], vec![]), &CFGS, &[1, 10], "empty");
    // n = 1, 2 : multiplicities 0/1/2 per ordered pair
    for n in 1..=2usize {
        let pairs: Vec<(usize, usize)> = (0..n).flat_map(|u| (0..n).map(move |v| (u, v))).collect();
        for code in 0..3usize.pow(pairs.len() as u32) {
            let mut es = Vec::new();
            let mut c = code;
            for &(u, v) in &pairs {
                for _ in 0..c % 3 {
                    es.push((u, v));
                }
                c /= 3;
            }
            let ids = perm_ids(&mut r, n);
            gk += 1;
            emit(&mut out, &G::new(n, es, ids), &cfgs_for(gk, every), &[1, 10], "small");
        }
    }
    // n = 3 : every simple digraph with self-loops
    for code in 0..512usize {
        let mut es = Vec::new();
        for b in 0..9 {
            if code & (1 << b) != 0 {
                es.push((b / 3, b % 3));
            }
        }
        let ids = perm_ids(&mut r, 3);
        gk += 1;
        emit(&mut out, &G::new(3, es, ids), &cfgs_for(gk, every), &[1, 10], "n3");
    }
    // random 4..7 nodes
    let nr = if args.thorough { 1500 } else { 60 };
    for _ in 0..nr {
        let n = r.range(4, 7) as usize;
        let m = r.range(2, 12) as usize;
        let g = random_graph(&mut r, n, m, 25);
        gk += 1;
        emit(&mut out, &g, &cfgs_for(gk, every), &[1, 10], "rand");
    }
    // Rust-only mid-size graphs
    let nm = if args.thorough { 300 } else { 30 };
    for _ in 0..nm {
        let n = r.range(20, 400) as usize;
        let m = (n as u64 * r.range(1, 5)) as usize / 2;
        let ds = r.below(40);
        let g = random_graph(&mut r, n, m, ds);
        let mut a = Vec::new();
        let mut b = Vec::new();
        let bad = check_graph(&mut out, &g, &CFGS, &[1, 25], &mut a, &mut b);
        out.count("rust_only_graphs");
        if !bad.is_empty() {
            let human = format!("mid n={} m={}", g.n, g.es.len());
            let i = out.case("(0, [], [], [], [])".to_string(), human.clone(), false);
            out.fail(i, &human, &bad.join(" | "), None);
        }
    }
    // both sides of the 1000-node threshold, here and in child processes with 1 and 8 rayon threads
    let mut bad = Vec::new();
    for (gi, g) in large_graphs(args.seed).iter().enumerate() {
        let mut a = Vec::new();
        let mut b = Vec::new();
        for e in check_graph(&mut out, g, &LARGE_CFGS, &[15], &mut a, &mut b) {
            bad.push(format!("large graph {} (n={}): {}", gi, g.n, e));
        }
        out.count("large_graphs");
    }
    let here = large_results(args.seed);
    let exe = std::env::current_exe().expect("exe");
    for threads in ["1", "8"] {
        let tmp = args.out.join(format!(".child{}", threads));
        let o = std::process::Command::new(&exe)
            .args(["--seed", &args.seed.to_string(), "--out", tmp.to_str().unwrap()])
            .env("C27_CHILD", "1")
            .env("RAYON_NUM_THREADS", threads)
            .output()
            .expect("child");
        let _ = std::fs::remove_dir_all(&tmp);
        let text = String::from_utf8_lossy(&o.stdout);
        let lines: Vec<&str> = text.lines().collect();
        if !o.status.success() || lines.len() != here.len() {
            bad.push(format!("child with {} threads failed ({} lines)", threads, lines.len()));
            continue;
        }
        let graphs = large_graphs(args.seed);
        for (a, b) in here.iter().zip(lines.iter()) {
            let fa: Vec<&str> = a.splitn(4, ' ').collect();
            let fb: Vec<&str> = b.splitn(4, ' ').collect();
            if fa[0] == "C" {
                if a != b {
                    bad.push(format!("cdlp on large graph {} differs between the default pool and {} thread(s)", fa[1], threads));
                }
                out.count("cdlp_thread_comparisons");
            } else {
                let gi: usize = fa[1].parse().unwrap();
                let xa: Vec<f64> = fa[3].split(',').map(|h| f64::from_bits(u64::from_str_radix(h, 16).unwrap())).collect();
                let xb: Vec<f64> = fb[3].split(',').map(|h| f64::from_bits(u64::from_str_radix(h, 16).unwrap())).collect();
                let worst = xa.iter().zip(&xb).map(|(p, q)| (p - q).abs()).fold(0.0, f64::max);
                let exact = a == b;
                if graphs[gi].n < 1000 && !exact {
                    bad.push(format!("page_rank below the threshold (n={}) is not bit-identical with {} thread(s)", graphs[gi].n, threads));
                }
                if worst > 1e-12 || xa.len() != xb.len() {
                    bad.push(format!("page_rank on large graph {} differs by {:e} with {} thread(s)", gi, worst, threads));
                }
                if exact {
                    out.count("pr_thread_bit_identical");
                }
                out.count("pr_thread_comparisons");
            }
        }
    }
    if !bad.is_empty() {
        let human = "large graphs / thread pools".to_string();
        let i = out.case("(0, [], [], [], [])".to_string(), human.clone(), false);
        out.fail(i, &human, &bad.join(" | "), None);
    }
    out.finish();
}
