//! C14 — imported snapshots survive restart and crashes during persistence.
//! Histories of 0..3 acknowledged imports (import into the live store, then
//! persist_snapshot, as the upload handler does) followed by an import whose persistence
//! is interrupted at a hook point `snap.persist.*` (the callback unwinds with a sentinel
//! panic, leaving the directory as a process crash would). Then
//! restore_persisted_snapshots runs on the directory into a fresh store. The directory and
//! the restored payload are compared with the Coq model (SnapshotFs.check_c14); the
//! property's own predicate compares the restored graph with the graph as of the
//! acknowledged imports / as of those plus the new one.
#[path = "snap_common/mod.rs"]
mod snap_common;
use samyama::graph::{GraphStore, NodeId, PropertyValue};
use samyama::snapshot::persist::{persist_snapshot, restore_persisted_snapshots};
use samyama::snapshot::{export_tenant, import_tenant_with_dedup};
use snap_common::*;
use std::sync::atomic::{AtomicUsize, Ordering};
use std::sync::{Arc, Mutex};
use vh::*;

struct Crash;

const HOOKS: [&str; 7] = [
    "snap.persist.after_mkdir",
    "snap.persist.after_tmp_create",
    "snap.persist.after_tmp_write",
    "snap.persist.after_tmp_sync",
    "snap.persist.after_rename",
    "snap.persist.after_marker_create",
    "snap.persist.after_marker_sync",
];

fn payload(r: &mut Rng) -> Vec<u8> {
    let mut s = GraphStore::new();
    let n = r.range(1, 3);
    let mut ids = Vec::new();
    for _ in 0..n {
        let id = s.create_node(*r.pick(&["P", "Q"]));
        s.set_node_property("default", id, "name", PropertyValue::String(r.pick(&["x", "y", "X ", "z"]).to_string())).unwrap();
        if r.chance(1, 3) {
            s.set_node_property("default", id, "v", PropertyValue::Integer(r.below(100) as i64)).unwrap();
        }
        ids.push(id);
    }
    if r.chance(1, 2) {
        let a = *r.pick(&ids);
        let b = *r.pick(&ids);
        s.create_edge(a, b, "R").unwrap();
    }
    let mut bytes = Vec::new();
    export_tenant(&s, &mut bytes).unwrap();
    bytes
}

fn read_file(p: &std::path::Path) -> Option<Vec<u8>> {
    std::fs::read(p).ok()
}
fn g_ofile(f: &Option<Vec<u8>>) -> String {
    g_opt(f.as_ref().map(|b| g_bytes(b)))
}

/// persist with a crash after `h` hook points (h = 1..=7); returns the hook trace
fn persist_crashing(dir: &str, bytes: &[u8], h: usize) -> (bool, Vec<String>) {
    let count = Arc::new(AtomicUsize::new(0));
    let trace: Arc<Mutex<Vec<String>>> = Arc::new(Mutex::new(Vec::new()));
    let (c2, t2) = (count.clone(), trace.clone());
    samyama::verif_hooks::set_callback(Some(Arc::new(move |name: &str| {
        t2.lock().unwrap().push(name.to_string());
        let n = c2.fetch_add(1, Ordering::SeqCst) + 1;
        if n == h {
            std::panic::panic_any(Crash);
        }
    })));
    let d = dir.to_string();
    let b = bytes.to_vec();
    let r = std::panic::catch_unwind(move || persist_snapshot(&d, &b));
    samyama::verif_hooks::set_callback(None);
    let crashed = match r {
        Err(e) => e.downcast_ref::<Crash>().is_some(),
        Ok(_) => false,
    };
    let t = trace.lock().unwrap().clone();
    (crashed, t)
}

struct Ev {
    bytes: Vec<u8>,
    keys: Vec<String>,
}

fn run_case(out: &mut Out, acked: Vec<Ev>, crash: Option<(Ev, usize)>) {
    let idx = out.next_index();
    if !out.wants(idx) {
        out.skip();
        return;
    }
    let tmp = tempfile::tempdir().unwrap();
    let dir = tmp.path().to_string_lossy().to_string();
    let mut live = GraphStore::new();
    let mut bad: Option<String> = None;
    for e in &acked {
        let keys: Vec<&str> = e.keys.iter().map(|s| s.as_str()).collect();
        if import_tenant_with_dedup(&mut live, std::io::Cursor::new(&e.bytes), &keys).is_err() {
            bad = Some("an import of a valid snapshot failed".into());
        }
        if persist_snapshot(&dir, &e.bytes).is_err() {
            bad = Some("persist_snapshot failed".into());
        }
    }
    let before = dump(&live);
    let mut after_new = None;
    let mut human = format!(
        "acked=[{}]",
        acked.iter().map(|e| format!("{}B keys{:?}", e.bytes.len(), e.keys)).collect::<Vec<_>>().join(", ")
    );
    if let Some((e, h)) = &crash {
        let keys: Vec<&str> = e.keys.iter().map(|s| s.as_str()).collect();
        let _ = import_tenant_with_dedup(&mut live, std::io::Cursor::new(&e.bytes), &keys);
        after_new = Some(dump(&live));
        let (crashed, trace) = persist_crashing(&dir, &e.bytes, *h);
        human.push_str(&format!(" crash={}B keys{:?} after {} ({})", e.bytes.len(), e.keys, h, HOOKS[*h - 1]));
        if !crashed {
            bad = Some("the hook point was not reached".into());
        }
        let expect: Vec<String> = HOOKS[..*h].iter().map(|s| s.to_string()).collect();
        if trace != expect {
            bad = Some(format!("hook trace {:?}, expected {:?}", trace, expect));
        }
        out.count(&format!("crash_after_{}", h));
    } else {
        out.count("clean_restart");
    }
    // the directory as the crash left it
    let sd = tmp.path().join("snapshots");
    let f_final = read_file(&sd.join("default.sgsnap"));
    let f_tmp = read_file(&sd.join("default.sgsnap.tmp"));
    let f_marker = read_file(&sd.join("default.sgsnap.committed"));
    // restart
    let mut fresh = GraphStore::new();
    let res = catch(std::panic::AssertUnwindSafe(|| restore_persisted_snapshots(&dir, &mut fresh).map(|o| o.is_some()).map_err(|e| e.to_string())));
    let restored = dump(&fresh);
    let mut restored_payload: Option<Vec<u8>> = None;
    match &res {
        Ok(Ok(true)) => {
            // which payload: the snapshot file's content, provided importing it independently
            // gives the same graph
            if let Some(fb) = &f_final {
                let mut chk = GraphStore::new();
                let ok = import_tenant_with_dedup(&mut chk, std::io::Cursor::new(fb), &[]).is_ok();
                if ok && same_graph(&dump(&chk), &restored).is_ok() {
                    restored_payload = Some(fb.clone());
                } else if bad.is_none() {
                    bad = Some("the restored graph is not the import of the snapshot file".into());
                }
            }
        }
        Ok(Ok(false)) => {}
        Ok(Err(e)) => {
            if bad.is_none() {
                bad = Some(format!("restore failed: {}", e));
            }
        }
        Err(p) => {
            if bad.is_none() {
                bad = Some(format!("restore panicked: {}", p));
            }
        }
    }
    let g = format!(
        "{{| cc_acked := {}; cc_crash := {}; cc_final := {}; cc_tmp := {}; cc_marker := {}; cc_restored := {} |}}",
        g_list(acked.iter().map(|e| g_bytes(&e.bytes))),
        match &crash {
            Some((e, h)) => format!("Some ({}, {}%nat)", g_bytes(&e.bytes), h),
            None => "None".to_string(),
        },
        g_ofile(&f_final),
        g_ofile(&f_tmp),
        g_ofile(&f_marker),
        g_ofile(&restored_payload)
    );
    out.case(g, human.clone(), !acked.is_empty() && crash.is_some());
    if restored_payload.is_some() {
        out.count("restored_something");
    }
    // ---- the property on the implementation ----
    // file level: the last acknowledged payload or the new one
    let last = acked.last().map(|e| e.bytes.clone());
    let newb = crash.as_ref().map(|(e, _)| e.bytes.clone());
    if bad.is_none() && !(restored_payload == last || (newb.is_some() && restored_payload == newb)) {
        bad = Some(format!(
            "restored payload of {:?} bytes is neither the last acknowledged ({:?} bytes) nor the new one ({:?} bytes)",
            restored_payload.as_ref().map(|b| b.len()),
            last.as_ref().map(|b| b.len()),
            newb.as_ref().map(|b| b.len())
        ));
    }
    if let Some(d) = bad {
        out.fail(idx, &human, &d, None);
        return;
    }
    // graph level
    let ok_prev = isomorphic(&before, &restored).is_ok();
    let ok_new = after_new.as_ref().map_or(false, |a| isomorphic(a, &restored).is_ok());
    if ok_prev || ok_new {
        out.count(if ok_prev { "restored_previous_state" } else { "restored_new_state" });
    } else {
        let dedup = acked.iter().any(|e| !e.keys.is_empty()) || crash.as_ref().map_or(false, |(e, _)| !e.keys.is_empty());
        let replaced = match (acked.len(), &crash) {
            (0, _) => false,
            (1, Some((_, h))) => *h >= 5,
            (1, None) => false,
            _ => true,
        };
        let class = if replaced {
            Some("only_last_import")
        } else if dedup {
            Some("dedup_not_replayed")
        } else {
            None
        };
        if let Some(c) = class {
            out.count(&format!("class_{}", c));
        }
        out.fail(
            idx,
            &human,
            &format!(
                "restored graph ({} nodes, {} relationships) is neither the graph as of the acknowledged imports ({} nodes) nor as of the new one ({:?} nodes)",
                restored.nodes.len(),
                restored.edges.len(),
                before.nodes.len(),
                after_new.as_ref().map(|a| a.nodes.len())
            ),
            class,
        );
    }
}

fn replay_known(out: &mut Out) {
    let mut r = Rng::new(99);
    let a = payload(&mut r);
    let b = payload(&mut r);
    // only the last import is kept
    {
        let tmp = tempfile::tempdir().unwrap();
        let dir = tmp.path().to_string_lossy().to_string();
        let mut live = GraphStore::new();
        for p in [&a, &b] {
            import_tenant_with_dedup(&mut live, std::io::Cursor::new(p), &[]).unwrap();
            persist_snapshot(&dir, p).unwrap();
        }
        let mut fresh = GraphStore::new();
        let _ = restore_persisted_snapshots(&dir, &mut fresh);
        let r = isomorphic(&dump(&live), &dump(&fresh));
        out.known.push(KnownReplay { class: "only_last_import".into(), still_fails: r.is_err(), detail: r.err().unwrap_or_default() });
    }
    // dedup keys are not replayed
    {
        let mut s = GraphStore::new();
        for _ in 0..2 {
            let id = s.create_node("P");
            s.set_node_property("default", id, "name", PropertyValue::String("x".into())).unwrap();
        }
        let mut bytes = Vec::new();
        export_tenant(&s, &mut bytes).unwrap();
        let tmp = tempfile::tempdir().unwrap();
        let dir = tmp.path().to_string_lossy().to_string();
        let mut live = GraphStore::new();
        import_tenant_with_dedup(&mut live, std::io::Cursor::new(&bytes), &["name"]).unwrap();
        persist_snapshot(&dir, &bytes).unwrap();
        let mut fresh = GraphStore::new();
        let _ = restore_persisted_snapshots(&dir, &mut fresh);
        let r = isomorphic(&dump(&live), &dump(&fresh));
        out.known.push(KnownReplay { class: "dedup_not_replayed".into(), still_fails: r.is_err(), detail: r.err().unwrap_or_default() });
    }
    // no directory fsync: the model's power-loss state "marker entry dropped", materialised
    {
        let tmp = tempfile::tempdir().unwrap();
        let dir = tmp.path().to_string_lossy().to_string();
        persist_snapshot(&dir, &a).unwrap();
        let src = std::fs::read_to_string(std::path::Path::new("/repo/src/snapshot/persist.rs")).unwrap_or_default();
        let dir_synced = src.contains("sync_all") && (src.contains("File::open(&dir)") || src.contains("open(&dir)"));
        std::fs::remove_file(tmp.path().join("snapshots").join("default.sgsnap.committed")).unwrap();
        let mut fresh = GraphStore::new();
        let got = restore_persisted_snapshots(&dir, &mut fresh).ok().flatten().is_some();
        out.known.push(KnownReplay {
            class: "no_dir_fsync".into(),
            still_fails: !dir_synced && !got,
            detail: "persist_snapshot never fsyncs the snapshots directory; with the marker's directory entry lost in a power failure an acknowledged import restores as nothing".into(),
        });
    }
    let _ = NodeId::new(1);
}

fn main() {
    let args = parse_args();
    quiet_panics();
    let mut out = Out::new(&args, "From Verif Require Import SnapshotFs.", "SnapshotFs.c14_case", "SnapshotFs.check_c14", if args.thorough { 40 } else { 12 });
    out.rule = "directory after a process crash at each hook point = model; restored payload in {last acknowledged, new}; restored graph in {graph as of acknowledged imports, as of those plus the new one}".into();
    replay_known(&mut out);
    let mut r = Rng::new(args.seed);
    let keysets: [Vec<String>; 2] = [vec![], vec!["name".to_string()]];
    // exhaustive: history length 0..=2 x every hook point, without dedup keys
    for n_acked in 0..=2usize {
        for h in 0..=7usize {
            let acked: Vec<Ev> = (0..n_acked).map(|_| Ev { bytes: payload(&mut r), keys: vec![] }).collect();
            let crash = if h == 0 { None } else { Some((Ev { bytes: payload(&mut r), keys: vec![] }, h)) };
            run_case(&mut out, acked, crash);
        }
    }
    let n = if args.thorough { 1500 } else { 150 };
    for i in 0..n {
        let mut r = Rng::for_case(args.seed, i);
        let n_acked = r.below(4) as usize;
        let with_keys = r.chance(1, 5);
        let acked: Vec<Ev> = (0..n_acked)
            .map(|_| Ev { bytes: payload(&mut r), keys: if with_keys && r.chance(1, 2) { keysets[1].clone() } else { vec![] } })
            .collect();
        let crash = if r.chance(1, 6) {
            None
        } else {
            Some((Ev { bytes: payload(&mut r), keys: if with_keys && r.chance(1, 2) { keysets[1].clone() } else { vec![] } }, r.range(1, 7) as usize))
        };
        run_case(&mut out, acked, crash);
    }
    out.finish();
}
