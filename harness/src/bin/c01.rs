//! C01 probe (temporary first version): run queries from a file against a fixed small graph.
use samyama::graph::{GraphStore, Label, PropertyValue};
use samyama::query::{QueryEngine, Value};
use std::collections::HashMap;
use vh::*;

fn show(v: &Value) -> String {
    match v {
        Value::Node(id, _) | Value::NodeRef(id) => format!("N{}", id.as_u64()),
        Value::Edge(id, _) => format!("R{}", id.as_u64()),
        Value::EdgeRef(id, ..) => format!("R{}", id.as_u64()),
        Value::Property(p) => format!("{:?}", p),
        Value::Path { nodes, edges } => format!(
            "P{:?}/{:?}",
            nodes.iter().map(|n| n.as_u64()).collect::<Vec<_>>(),
            edges.iter().map(|n| n.as_u64()).collect::<Vec<_>>()
        ),
        Value::List(l) => format!("L[{}]", l.iter().map(show).collect::<Vec<_>>().join(", ")),
        Value::Map(m) => format!("M{{{}}}", m.iter().map(|(k, v)| format!("{}: {}", k, show(v))).collect::<Vec<_>>().join(", ")),
        Value::Null => "NULL".to_string(),
    }
}

fn main() {
    quiet_panics();
    let path = std::env::var("C01_PROBE").expect("C01_PROBE");
    let mut store = GraphStore::new();
    let mk = |store: &mut GraphStore, labels: &[&str], props: &[(&str, PropertyValue)]| {
        let mut m = HashMap::new();
        for (k, v) in props {
            m.insert(k.to_string(), v.clone());
        }
        store.create_node_with_properties("default", labels.iter().map(|l| Label::new(*l)).collect(), m)
    };
    let n0 = mk(&mut store, &["A"], &[("x", PropertyValue::Integer(1)), ("s", PropertyValue::String("a".into()))]);
    let n1 = mk(&mut store, &["A", "B"], &[("x", PropertyValue::Integer(2))]);
    let n2 = mk(&mut store, &["B"], &[("x", PropertyValue::String("a".into()))]);
    let n3 = mk(&mut store, &[], &[("x", PropertyValue::Boolean(true)), ("y", PropertyValue::Array(vec![PropertyValue::Integer(1), PropertyValue::Integer(2)]))]);
    let e = |store: &mut GraphStore, a, b, t: &str, props: &[(&str, PropertyValue)]| {
        let mut m = HashMap::new();
        for (k, v) in props {
            m.insert(k.to_string(), v.clone());
        }
        store.create_edge_with_properties(a, b, t, m).unwrap()
    };
    e(&mut store, n0, n1, "R", &[("w", PropertyValue::Integer(1))]);
    e(&mut store, n0, n1, "R", &[("w", PropertyValue::Integer(2))]);
    e(&mut store, n1, n2, "S", &[]);
    e(&mut store, n2, n2, "R", &[]);
    e(&mut store, n2, n0, "T", &[]);
    e(&mut store, n3, n0, "R", &[]);
    let text = std::fs::read_to_string(path).unwrap();
    for q in text.lines() {
        let q = q.trim();
        if q.is_empty() || q.starts_with('#') {
            continue;
        }
        let engine = QueryEngine::new();
        let r = catch(std::panic::AssertUnwindSafe(|| engine.execute(q, &store).map_err(|e| e.to_string())));
        println!("Q: {}", q);
        match r {
            Err(p) => println!("   PANIC {}", p),
            Ok(Err(e)) => println!("   ERR {}", e),
            Ok(Ok(b)) => {
                println!("   cols {:?}", b.columns);
                for rec in &b.records {
                    let row: Vec<String> = b.columns.iter().map(|c| rec.get(c).map(show).unwrap_or("<missing>".into())).collect();
                    println!("   {}", row.join(" | "));
                }
            }
        }
    }
}
