//! C01 — read queries return exactly the rows openCypher semantics define.
//!
//! Differential correspondence: random small property graphs are built in a `GraphStore`,
//! queries are generated from a typed grammar of the fragment, rendered to Cypher text for the
//! engine and to a Gallina AST for the reference semantics (coq/model/Cypher.v) from the same
//! generator value. The engine's rows are canonicalised and embedded in the case; coqc decides
//! whether they are the rows the reference semantics defines (`Cypher.check_case`).
#[path = "../cygen.rs"]
mod cygen;
use cygen::*;
use samyama::query::QueryEngine;
use std::collections::{BTreeMap, BTreeSet};
use vh::*;

fn probe(path: &str) {
    let g = fixed_graph();
    let (store, g) = build_store(&g);
    println!("graph: {}", g_graph(&g));
    let text = std::fs::read_to_string(path).unwrap();
    for q in text.lines() {
        let q = q.trim();
        if q.is_empty() || q.starts_with('#') {
            continue;
        }
        println!("Q: {}", q);
        match run_engine(&store, q, &[]) {
            Obs::Panic(p) => println!("   PANIC {}", p),
            Obs::Err(e) => println!("   ERR {}", e),
            Obs::Ok(rows) => {
                for r in rows {
                    println!("   {}", r.iter().map(|v| format!("{:?}", v)).collect::<Vec<_>>().join(" | "));
                }
            }
        }
    }
}

/// Stored witnesses of the known findings (known_findings.txt), replayed on the implementation
/// every run: (class, query on `fixed_graph`, the rows openCypher defines).
fn replay_known(out: &mut Out) {
    let i = Val::Int;
    let witnesses: Vec<(&str, &str, Vec<Vec<Val>>)> = vec![
        (
            "varlen_reachability",
            "MATCH (a)-[*1..1]->(b) WHERE id(a) = 1 RETURN id(b) AS x",
            vec![vec![i(2)], vec![i(2)]],
        ),
        (
            "optional_where_outer",
            "MATCH (n:A) OPTIONAL MATCH (n)-[r]->(m) WHERE n.p0 = 2 RETURN id(n) AS x, id(m) AS y",
            vec![vec![i(1), Val::Null], vec![i(2), i(3)]],
        ),
        (
            "where_after_optional",
            "OPTIONAL MATCH (n:D) MATCH (m:A) WHERE n.p2 RETURN id(m) AS x",
            vec![],
        ),
        (
            "multi_path_rel_iso",
            "MATCH (a)-[r]->(b), (c)-[s]->(d) RETURN count(*) AS x",
            vec![vec![i(30)]],
        ),
        ("list_eq_null", "RETURN [1, null] = [1, null] AS x", vec![vec![Val::Null]]),
        ("with_agg_empty", "MATCH (n:D) WITH count(*) AS c RETURN c AS x", vec![vec![i(0)]]),
        ("sum_distinct", "MATCH (n) RETURN sum(DISTINCT 5) AS x", vec![vec![i(5)]]),
        (
            "match_unwind_with",
            "MATCH (n:A) UNWIND [1, 2] AS x WITH x AS y RETURN y AS x",
            vec![vec![i(1)], vec![i(2)], vec![i(1)], vec![i(2)]],
        ),
        (
            "bound_node_after_with",
            "MATCH (n) WITH n AS m MATCH (m:B) RETURN id(m) AS x",
            vec![vec![i(2)], vec![i(3)]],
        ),
        (
            "wheres_then_unwind",
            "MATCH (n:A) WHERE n.p0 = 1 MATCH (m:B) WHERE m.p0 = 2 UNWIND [4] AS x RETURN id(n) AS x",
            vec![vec![i(1)]],
        ),
        (
            "collect_distinct_entities",
            "MATCH (n:A) RETURN size(collect(DISTINCT n)) AS x",
            vec![vec![i(2)]],
        ),
    ];
    let (store, _) = build_store(&fixed_graph());
    // self-test of the direct relationship-isomorphism predicate on the recorded deviation
    // (comma-separated paths): MATCH (a)-[r]->(b), (c)-[s]->(d) RETURN r, s binds r = s in 6 rows
    {
        let np = |v: u32| NPat { var: Some(v), labels: Vec::new(), props: Vec::new() };
        let rp = |v: u32| RPat { var: Some(v), types: Vec::new(), dir: 0, props: Vec::new(), len: None };
        let q = Query {
            all: false,
            parts: vec![SQuery {
                clauses: vec![Clause::Match {
                    opt: false,
                    pats: vec![
                        Path { start: np(1), segs: vec![(rp(2), np(3))] },
                        Path { start: np(4), segs: vec![(rp(5), np(6))] },
                    ],
                    wher: None,
                }],
                ret: Proj {
                    distinct: false,
                    items: vec![(Item::Expr(Expr::Var(2)), 100), (Item::Expr(Expr::Var(5)), 101)],
                    order: Vec::new(),
                    skip: None,
                    limit: None,
                },
            }],
        };
        let obs = run_engine(&store, &render_query(&q), &[]);
        let fired = matches!(rel_iso_predicate(&q, &obs), Some((_, Some("multi_path_rel_iso"))));
        out.notes.push(format!(
            "rel_iso_predicate self-test on the multi_path_rel_iso witness: {}",
            if fired { "fires (relationship bound twice detected)" } else { "does not fire (the engine now enforces isomorphism across paths, or the predicate is broken)" }
        ));
    }
    for (class, q, expected) in witnesses {
        let obs = run_engine(&store, q, &[]);
        let same = match &obs {
            Obs::Ok(rows) => {
                let mut a: Vec<String> = rows.iter().map(|r| format!("{:?}", r)).collect();
                let mut b: Vec<String> = expected.iter().map(|r| format!("{:?}", r)).collect();
                a.sort();
                b.sort();
                a == b
            }
            _ => false,
        };
        out.known.push(KnownReplay {
            class: class.to_string(),
            still_fails: !same,
            detail: format!("{} on the fixed graph: engine {}, openCypher {}", q, human_obs(&obs), human_obs(&Obs::Ok(expected))),
        });
    }
}

fn load_corpus() -> BTreeSet<String> {
    let mut s = BTreeSet::new();
    if let Ok(t) = std::fs::read_to_string("/verif/corpus/C01/supported.jsonl") {
        for l in t.lines() {
            if let Ok(v) = serde_json::from_str::<serde_json::Value>(l) {
                if let Some(sh) = v.get("shape").and_then(|x| x.as_str()) {
                    s.insert(sh.to_string());
                }
            }
        }
    }
    s
}

fn main() {
    quiet_panics();
    if let Ok(p) = std::env::var("C01_PROBE") {
        probe(&p);
        return;
    }
    let args = parse_args();
    let corpus = load_corpus();
    let mut out = Out::new(&args, "From Verif Require Import CypherCore Cypher.", "Cypher.case", "Cypher.check_case", 125);
    out.rule = "random property graphs (<=6 nodes, <=10 relationships, multi-edges, self-loops, 0-3 labels, \
                mixed-type and missing properties) x queries from a typed grammar of the fragment (MATCH / OPTIONAL \
                MATCH with labels, types, directions, inline properties, variable length; WHERE; WITH; UNWIND; \
                RETURN [DISTINCT]; aggregates; ORDER BY; SKIP; LIMIT; UNION [ALL]); ~15% of expressions carry an \
                ill-typed subterm. Non-trivial = the engine returned at least one row or an error; distinct by \
                (graph, query) text."
        .to_string();
    let n = if args.thorough { 24000 } else { 2000 };
    // shape -> (ok, err) observed in this run, for corpus recording
    let mut shapes: BTreeMap<String, (u64, u64)> = BTreeMap::new();
    let engine = QueryEngine::new();
    let _ = &engine;
    let mut graph_cache: Option<(u64, samyama::graph::GraphStore, Graph)> = None;
    for c in 0..n {
        // one graph serves 4 consecutive queries
        let gi = c / 4;
        if graph_cache.as_ref().map(|x| x.0) != Some(gi) {
            let mut gr = Rng::for_case(args.seed ^ 0x5151, gi);
            let g0 = gen_graph(&mut gr);
            let (store, g) = build_store(&g0);
            graph_cache = Some((gi, store, g));
        }
        let (_, store, g) = graph_cache.as_ref().unwrap();
        let mut r = Rng::for_case(args.seed, c);
        let mut cx = Gen::new(&mut r, g, false);
        if let Ok(l) = std::env::var("C01_LEVEL") {
            cx.level = l.parse().unwrap();
        }
        let q = cx.gen_query();
        let feats = cx.features.clone();
        let text = render_query(&q);
        if cost_estimate(g, &q) > 3000.0 {
            out.count("skipped_cost");
            continue;
        }
        let mut shape = shape_of(&q);
        if feats.contains("ill_typed") {
            shape.push_str(" !ill");
        }
        if feats.contains("list_concat") {
            shape.push_str(" !lc");
        }
        let idx = out.next_index();
        if !out.wants(idx) {
            out.skip();
            continue;
        }
        let obs = run_engine(store, &text, &[]);
        // "must not start failing" is about constructs becoming unsupported; a type error is a
        // refusal that depends on the data (mixed-type properties meet the predicate wherever the
        // planner evaluates it), so it never counts as a supported shape starting to fail
        let must_ok = corpus.contains(&shape) && !matches!(&obs, Obs::Err(e) if e.starts_with("Type error"));
        let e = shapes.entry(shape.clone()).or_insert((0, 0));
        match &obs {
            Obs::Ok(_) => e.0 += 1,
            _ => e.1 += 1,
        }
        for f in &feats {
            out.count(f);
        }
        match &obs {
            Obs::Ok(rows) => {
                out.count("engine_ok");
                if !rows.is_empty() {
                    out.count("engine_ok_nonempty");
                }
            }
            Obs::Err(_) => out.count("engine_err"),
            Obs::Panic(_) => out.count("engine_panic"),
        }
        if must_ok {
            out.count("shape_in_corpus");
        }
        let human = format!("graph={} query={} obs={}", human_graph(g), text, human_obs(&obs)).replace('\n', " ");
        let gal = format!(
            "(Case {} [] {} {} {})",
            g_graph(g),
            g_query(&q),
            g_bool(must_ok),
            g_obs(&obs)
        );
        let nontrivial = !matches!(&obs, Obs::Ok(rows) if rows.is_empty());
        let i = out.case(gal, human.clone(), nontrivial);
        // the property's own predicates, evaluated directly on the implementation
        if let Obs::Panic(p) = &obs {
            out.fail(i, &human, &format!("the engine panicked: {}", p), None);
        } else if let Some((d, class)) = rel_iso_predicate(&q, &obs) {
            out.fail(i, &human, &d, class);
        } else if let Some(d) = direct_predicates(g, &q, &obs) {
            // a variable-length pattern answers reachability, not trails (known finding):
            // its end node is bound without the pattern's checks
            let known = if feats.contains("var_length") { Some("varlen_reachability") } else { None };
            out.fail(i, &human, &d, known);
        }
    }
    replay_known(&mut out);
    if let Ok(p) = std::env::var("C01_RECORD") {
        let mut s = String::new();
        for (k, (ok, err)) in &shapes {
            s.push_str(&format!("{}\t{}\t{}\n", ok, err, k));
        }
        std::fs::write(p, s).unwrap();
    }
    out.count_n("distinct_shapes", shapes.len() as u64);
    out.finish();
}
