//! C03 — the parsed-query cache never changes what a query means.
//!
//! Histories of near-duplicate query texts are run through one `QueryEngine` (LRU AST cache,
//! small capacities so that eviction happens) and, text by text, through a fresh
//! `parse_query` + executor on an identically built store. The property's predicate is
//! evaluated directly: every answer (columns, row bag or error text) and the final graph are
//! equal, and two texts of a history that have the same cache key have the same fresh answer.
//! The model (coq/model/QueryCache.v) is compared on the key bytes, hit/miss and cache size.
use samyama::graph::GraphStore;
use samyama::query::{cache_key, parse_query, MutQueryExecutor, QueryEngine, QueryExecutor, RecordBatch};
use vh::*;

fn build_store() -> GraphStore {
    let mut g = GraphStore::new();
    let a = g.create_node("Person");
    {
        let n = g.get_node_mut(a).unwrap();
        n.set_property("name", "Al  ice");
        n.set_property("age", 30i64);
    }
    let b = g.create_node("Person");
    {
        let n = g.get_node_mut(b).unwrap();
        n.set_property("name", "A b");
        n.set_property("age", 25i64);
    }
    let c = g.create_node("Person");
    {
        let n = g.get_node_mut(c).unwrap();
        n.set_property("name", "A  b");
        n.set_property("age", 41i64);
    }
    g.create_edge(a, b, "KNOWS").unwrap();
    g.create_edge(b, c, "KNOWS").unwrap();
    g
}

pub fn dump(g: &GraphStore) -> String {
    let mut nodes: Vec<String> = g
        .all_nodes()
        .iter()
        .map(|n| {
            let mut labels: Vec<String> = n.labels.iter().map(|l| l.as_str().to_string()).collect();
            labels.sort();
            let mut props: Vec<String> =
                g.node_properties_full(n.id).iter().map(|(k, v)| format!("{}={:?}", k, v)).collect();
            props.sort();
            format!("N{}:{:?}{{{}}}", n.id.as_u64(), labels, props.join(","))
        })
        .collect();
    nodes.sort();
    let mut edges: Vec<String> = g
        .all_edges()
        .iter()
        .map(|e| {
            let mut props: Vec<String> = e.properties.iter().map(|(k, v)| format!("{}={:?}", k, v)).collect();
            props.sort();
            format!("E{}:{}-[{}]->{}{{{}}}", e.id.as_u64(), e.source.as_u64(), e.edge_type.as_str(), e.target.as_u64(), props.join(","))
        })
        .collect();
    edges.sort();
    format!("{} | {}", nodes.join(" "), edges.join(" "))
}

/// values without timestamps / addresses
fn show_value(v: Option<&samyama::query::Value>) -> String {
    use samyama::query::Value;
    match v {
        None => "-".to_string(),
        Some(Value::Node(id, n)) => {
            let mut labels: Vec<String> = n.labels.iter().map(|l| l.as_str().to_string()).collect();
            labels.sort();
            let mut props: Vec<String> = n.properties.iter().map(|(k, v)| format!("{}={:?}", k, v)).collect();
            props.sort();
            format!("Node({},{:?},{:?})", id.as_u64(), labels, props)
        }
        Some(Value::Edge(id, e)) => format!("Edge({},{}->{},{})", id.as_u64(), e.source.as_u64(), e.target.as_u64(), e.edge_type.as_str()),
        Some(Value::List(items)) => format!("[{}]", items.iter().map(|i| show_value(Some(i))).collect::<Vec<_>>().join(",")),
        Some(other) => format!("{:?}", other),
    }
}

/// canonical answer: columns in order + sorted rows, or the error text
fn canon<E: std::fmt::Display>(r: &Result<RecordBatch, E>) -> String {
    match r {
        Ok(b) => {
            let mut rows: Vec<String> = b
                .records
                .iter()
                .map(|r| b.columns.iter().map(|c| show_value(r.get(c))).collect::<Vec<_>>().join(","))
                .collect();
            rows.sort();
            format!("OK cols={:?} rows=[{}]", b.columns, rows.join(" | "))
        }
        Err(e) => format!("ERR {}", e),
    }
}

/// one template: pieces joined by separators; `alts[i]` = alternative spellings of piece i
struct Tpl {
    pieces: Vec<Vec<&'static str>>,
    write: bool,
}

fn templates() -> Vec<Tpl> {
    let t = |v: Vec<Vec<&'static str>>, write: bool| Tpl { pieces: v, write };
    vec![
        t(vec![vec!["RETURN", "return", "Return"], vec!["'a b'", "'a  b'", "'a\tb'", "\"a b\"", "\"a  b\"", "'a \\' b'", "'a  \\' b'", "'a // b'", "'a  // b'", "'a /* b'"]], false),
        t(vec![vec!["RETURN", "return"], vec!["1"], vec!["+"], vec!["2"]], false),
        t(vec![vec!["RETURN"], vec!["1"], vec!["+"], vec!["2"], vec!["AS", "as"], vec!["x"]], false),
        t(vec![vec!["MATCH", "match"], vec!["(n:Person)"], vec!["RETURN", "return"], vec!["n.name"]], false),
        t(vec![vec!["MATCH"], vec!["(n:Person)"], vec!["WHERE", "where"], vec!["n.name"], vec!["="], vec!["'Al  ice'", "'Al ice'", "'A b'", "'A  b'", "\"A  b\""], vec!["RETURN"], vec!["n.age"]], false),
        t(vec![vec!["MATCH"], vec!["(n:Person)"], vec!["WHERE"], vec!["n.name"], vec!["STARTS", "starts"], vec!["WITH", "with"], vec!["'A '", "'A  '", "'A'"], vec!["RETURN"], vec!["count(n)"]], false),
        t(vec![vec!["UNWIND", "unwind"], vec!["[1,2]"], vec!["AS"], vec!["x"], vec!["RETURN"], vec!["x"], vec!["+"], vec!["1"]], false),
        t(vec![vec!["MATCH"], vec!["(n)"], vec!["RETURN"], vec!["n.name"], vec![","], vec!["n.age"], vec!["ORDER"], vec!["BY", "by"], vec!["n.age"], vec!["LIMIT"], vec!["2"]], false),
        t(vec![vec!["WITH", "with"], vec!["1"], vec!["AS"], vec!["x"], vec!["RETURN"], vec!["x"]], false),
        t(vec![vec!["MATCH"], vec!["(a:Person)-[:KNOWS]->(b)"], vec!["WHERE"], vec!["a.age"], vec![">"], vec!["26"], vec!["RETURN"], vec!["a.name"], vec![","], vec!["b.name"]], false),
        t(vec![vec!["MATCH"], vec!["(n:Person"], vec!["{name:"], vec!["'A b'", "'A  b'", "'A\\tb'"], vec!["})"], vec!["RETURN"], vec!["n.age"]], false),
        t(vec![vec!["CREATE", "create"], vec!["(:T"], vec!["{s:"], vec!["'a b'", "'a  b'", "'a\nb'", "\"a b\""], vec!["})"]], true),
        t(vec![vec!["MATCH"], vec!["(n:Person)"], vec!["WHERE"], vec!["n.age"], vec![">"], vec!["26"], vec!["SET", "set"], vec!["n.tag"], vec!["="], vec!["'x y'", "'x  y'"]], true),
        t(vec![vec!["MERGE", "merge"], vec!["(m:M"], vec!["{k:"], vec!["'p q'", "'p  q'"], vec!["})"], vec!["RETURN"], vec!["m.k"]], true),
    ]
}

const PLAIN_SEPS: &[&str] = &[" ", "  ", "\t", "\n", " \n  ", "\r\n", "   "];
const ODD_SEPS: &[&str] = &[
    " /* c */ ", " /* c  d */ ", "/**/", " // c\n", " // c  d\n", " // c ", "\u{a0}", " \u{a0}", "\u{2003}", "\u{3000} ",
    "\x0b", "\x0c ", "", " /* ' */ ", " // '\n", " /* // */ ", "/*/ */",
];

fn render(tpl: &Tpl, choice: &[usize], seps: &[String], lead: &str, trail: &str) -> String {
    let mut s = String::from(lead);
    for (i, p) in tpl.pieces.iter().enumerate() {
        if i > 0 {
            s.push_str(&seps[i - 1]);
        }
        s.push_str(p[choice[i] % p.len()]);
    }
    s.push_str(trail);
    s
}

fn old_key(q: &str) -> String {
    q.split_whitespace().collect::<Vec<_>>().join(" ")
}

struct Req {
    text: String,
    write: bool,
}

fn gen_history(r: &mut Rng, tpls: &[Tpl]) -> Vec<Req> {
    let len = r.range(2, 7) as usize;
    let nt = r.range(1, 2) as usize;
    let picks: Vec<usize> = (0..nt).map(|_| r.below(tpls.len() as u64) as usize).collect();
    // per template: a base choice / separator vector, mutated a little per request
    let mut base: Vec<(Vec<usize>, Vec<String>)> = picks
        .iter()
        .map(|&t| {
            let n = tpls[t].pieces.len();
            ((0..n).map(|_| if r.chance(1, 3) { r.below(8) as usize } else { 0 }).collect(), vec![" ".to_string(); n.saturating_sub(1)])
        })
        .collect();
    let mut out = Vec::new();
    for _ in 0..len {
        let w = r.below(nt as u64) as usize;
        let tpl = &tpls[picks[w]];
        let (mut ch, mut sp) = base[w].clone();
        let muts = r.range(0, 3);
        for _ in 0..muts {
            match r.below(10) {
                0..=4 if !sp.is_empty() => {
                    let i = r.below(sp.len() as u64) as usize;
                    sp[i] = r.pick(PLAIN_SEPS).to_string();
                }
                5 | 6 if !sp.is_empty() => {
                    let i = r.below(sp.len() as u64) as usize;
                    sp[i] = r.pick(ODD_SEPS).to_string();
                }
                _ => {
                    let i = r.below(ch.len() as u64) as usize;
                    ch[i] = r.below(10) as usize;
                }
            }
        }
        if r.chance(1, 4) {
            base[w] = (ch.clone(), sp.clone());
        }
        let lead = if r.chance(1, 6) { *r.pick(&["  ", "\n", "\t ", "/* c */ "]) } else { "" };
        let trail = if r.chance(1, 6) { *r.pick(&[" ", "\n", "  \n", " ;", ";", " // c", " /* c  d */"]) } else { "" };
        out.push(Req { text: render(tpl, &ch, &sp, lead, trail), write: tpl.write });
    }
    out
}

// ---------- literal / comment stress family ----------
// Several literals ahead of the first RETURN (where the key is normalised): a fixed first
// literal that is lexically awkward, then literals whose *inner* whitespace varies from
// request to request. A key that loses track of where a literal ends merges those requests.

/// (text, tag): first literal, fixed within a history
const TRICKY_LIT: &[(&str, &str)] = &[
    (r"'C:\\'", "lit_ends_escaped_backslash"),
    (r#""C:\\""#, "lit_ends_escaped_backslash"),
    (r"'\\'", "lit_ends_escaped_backslash"),
    (r"'a b\\'", "lit_ends_escaped_backslash"),
    (r"'a\\\\'", "lit_backslash_run"),
    (r#""a\\\\""#, "lit_backslash_run"),
    (r"'a\\\''", "lit_backslash_run"),
    (r"'a\\\\\\'", "lit_backslash_run"),
    (r"'it\'s'", "lit_escaped_quote"),
    (r#""say \"hi\"""#, "lit_escaped_quote"),
    (r"'\''", "lit_escaped_quote"),
    (r#"'a "b" c'"#, "lit_other_quote"),
    (r#""it's""#, "lit_other_quote"),
    (r#"'"'"#, "lit_other_quote"),
    (r#""'""#, "lit_other_quote"),
    (r"'a // b'", "lit_comment_marker_inside"),
    (r"'a /* b'", "lit_comment_marker_inside"),
    (r"'*/'", "lit_comment_marker_inside"),
    (r"'a\' // '", "lit_comment_marker_inside"),
    (r"'x'/* c */", "lit_adjacent_comment"),
    (r"/* c */'x'", "lit_adjacent_comment"),
    (r"'x'/**/", "lit_adjacent_comment"),
    ("'x'// c\n", "lit_adjacent_comment"),
    (r"'a\'", "unterminated"),
    (r"'a\\\'", "unterminated"),
    (r"'abc", "unterminated"),
    (r#""abc"#, "unterminated"),
    ("'plain'", "lit_plain_first"),
];

/// families of literals that differ only in inner whitespace (index 0/1 select graph rows)
const WS_FAMILIES: &[&[&str]] = &[
    &["'A b'", "'A  b'", "'A\tb'", "'A   b'"],
    &["\"A b\"", "\"A  b\"", "\"A \t b\""],
    &["'Al  ice'", "'Al ice'", "'Al   ice'"],
    &[r"'A b\\'", r"'A  b\\'"],
    &[r#"'A "b'"#, r#"'A  "b'"#],
    &[r"'A\' b'", r"'A\'  b'"],
];

/// separators that contain quote characters inside comments, comments next to literals, …
const COMMENT_SEPS: &[(&str, &str)] = &[
    (" ", "sep_plain"),
    ("  ", "sep_plain"),
    ("\n", "sep_plain"),
    (" /* ' */ ", "comment_with_quote"),
    (" /* \" */ ", "comment_with_quote"),
    (" /* it's */ ", "comment_with_quote"),
    (" // it's\n", "comment_with_quote"),
    (" // \"\n", "comment_with_quote"),
    ("/* ' */", "comment_with_quote"),
    (" /* \\' */ ", "comment_with_quote"),
    (" /* c */ ", "sep_comment"),
    (" // c\n", "sep_comment"),
    (" /* unterminated ", "unterminated"),
    (" // ' ", "unterminated"),
];

fn gen_literal_history(r: &mut Rng) -> (Vec<Req>, Vec<&'static str>) {
    let mut tags: Vec<&'static str> = Vec::new();
    let (l1, t1) = *r.pick(TRICKY_LIT);
    tags.push(t1);
    let fam2 = *r.pick(WS_FAMILIES);
    let fam3 = *r.pick(WS_FAMILIES);
    let (s1, ts1) = *r.pick(COMMENT_SEPS);
    let (s2, ts2) = if r.chance(1, 3) { *r.pick(COMMENT_SEPS) } else { (" ", "sep_plain") };
    tags.push(ts1);
    tags.push(ts2);
    let shape = r.below(4);
    let len = r.range(2, 6) as usize;
    let mut out = Vec::new();
    let mut seen2: Vec<&str> = Vec::new();
    let mut seen3: Vec<&str> = Vec::new();
    for _ in 0..len {
        let l2 = *r.pick(fam2);
        let l3 = *r.pick(fam3);
        if !seen2.contains(&l2) {
            seen2.push(l2);
        }
        if !seen3.contains(&l3) {
            seen3.push(l3);
        }
        let a = *r.pick(PLAIN_SEPS);
        let b = *r.pick(PLAIN_SEPS);
        let (text, write) = match shape {
            0 => (format!("MATCH{}(n:Person) WHERE n.tag = {}{}OR n.name = {}{}OR n.tag ={}{} RETURN n.age", a, l1, s1, l2, s2, b, l3), false),
            1 => (format!("MATCH (n:Person){}WHERE n.name = {}{}OR n.tag = {}{}RETURN n.age", a, l2, s1, l1, b), false),
            2 => (format!("CREATE{}(:T {{p: {},{}s: {},{}t: {}}})", a, l1, s1, l2, s2, l3), true),
            _ => (format!("MATCH (n:Person {{name: {}}}){}WHERE n.tag IS NULL OR n.tag IN [{}, {}]{}RETURN n.age", l2, s1, l1, l3, b), false),
        };
        out.push(Req { text, write });
    }
    // the state a literal-boundary bug needs: awkward first literal, and a later literal whose
    // inner whitespace differs between two requests of the history
    if shape != 1 && shape != 3 && (seen2.len() > 1 || seen3.len() > 1) {
        tags.push("later_literal_ws_differs");
        if t1 == "lit_ends_escaped_backslash" || t1 == "lit_backslash_run" {
            tags.push("later_literal_ws_differs_after_backslash_end");
        }
    }
    if shape == 1 || shape == 3 {
        tags.push("awkward_literal_not_first");
    }
    (out, tags)
}

fn run_case(out: &mut Out, cap: usize, hist: &[Req]) {
    let idx = out.next_index();
    if !out.wants(idx) {
        out.skip();
        return;
    }
    let engine = QueryEngine::with_capacity(cap);
    let mut g_cached = build_store();
    let mut g_fresh = build_store();
    let mut obs = Vec::new();
    let mut bad: Option<String> = None;
    let mut fresh_answers: Vec<(String, String, String)> = Vec::new(); // (key, text, answer)
    let mut first_text_of_key: std::collections::HashMap<String, String> = std::collections::HashMap::new();
    let human = format!(
        "cap={} hist={:?}",
        cap,
        hist.iter().map(|r| (if r.write { "W" } else { "R" }, r.text.as_str())).collect::<Vec<_>>()
    );
    for (step, rq) in hist.iter().enumerate() {
        let q = rq.text.as_str();
        let key = cache_key(q);
        let hits0 = engine.cache_stats().hits();
        let len0 = engine.cache_len();
        let parsed = parse_query(q);
        let ok = parsed.is_ok();
        let (ans_cached, ans_fresh) = if rq.write {
            let a = canon(&engine.execute_mut(q, &mut g_cached, "default"));
            let b = match parsed {
                Ok(ast) => canon(&MutQueryExecutor::new(&mut g_fresh, "default".to_string()).execute(&ast)),
                Err(e) => format!("ERR {}", e),
            };
            (a, b)
        } else {
            let a = canon(&engine.execute(q, &g_cached));
            let b = match parsed {
                Ok(ast) => canon(&QueryExecutor::new(&g_fresh).execute(&ast)),
                Err(e) => format!("ERR {}", e),
            };
            (a, b)
        };
        let hit = engine.cache_stats().hits() > hits0;
        let len = engine.cache_len();
        if hit {
            out.count("hits");
            match first_text_of_key.get(&key) {
                Some(t) if t != q => out.count("normalised_hits"),
                _ => out.count("exact_hits"),
            }
        } else {
            if ok {
                if len == len0 {
                    out.count("evictions");
                }
                first_text_of_key.insert(key.clone(), q.to_string());
            } else {
                out.count("parse_errors");
            }
        }
        if ans_cached != ans_fresh && bad.is_none() {
            bad = Some(format!("step {} text {:?}: engine answered {} but a fresh parse+execute answers {}", step, q, ans_cached, ans_fresh));
        }
        for (k2, t2, a2) in &fresh_answers {
            let both_err = a2.starts_with("ERR") && ans_fresh.starts_with("ERR"); // error texts carry positions; errors are never cached
            if *k2 == key && *a2 != ans_fresh && !both_err && !rq.write && bad.is_none() {
                bad = Some(format!("texts {:?} and {:?} share cache key {:?} but answer {} / {}", t2, q, key, a2, ans_fresh));
            }
            if old_key(t2) == old_key(q) && *k2 != key {
                out.count("old_key_merged_now_split");
            }
        }
        if rq.write {
            // the graph may have changed: answers before and after are not comparable
            fresh_answers.clear();
        } else {
            fresh_answers.push((key.clone(), q.to_string(), ans_fresh.clone()));
        }
        if q.contains('\u{a0}') || q.contains('\u{2003}') || q.contains('\u{3000}') || q.contains('\x0b') || q.contains('\x0c') {
            out.count("unicode_space_texts");
        }
        if q.contains("/*") || q.contains("//") {
            out.count("comment_texts");
        }
        obs.push(format!("({}, {}, {}, {}, {})", g_bytes(q.as_bytes()), g_bool(ok), g_bytes(key.as_bytes()), g_bool(hit), len));
    }
    if bad.is_none() {
        let (da, db) = (dump(&g_cached), dump(&g_fresh));
        if da != db {
            bad = Some(format!("final graphs differ: cached {} / fresh {}", da, db));
        }
    }
    if hist.iter().any(|r| r.write) {
        out.count("with_write");
    }
    let g = format!("({}, {})", cap, g_list(obs));
    let i = out.case(g, human.clone(), hist.len() > 1);
    if let Some(b) = bad {
        out.fail(i, &human, &b, None);
    }
}

fn main() {
    let args = parse_args();
    std::env::remove_var("SAMYAMA_GRAPH_NATIVE");
    let mut out = Out::new(&args, "From Verif Require Import QueryCache.", "QueryCache.case", "QueryCache.check_case",
                           100);
    out.rule = "fixed witness histories (literal / comment / NBSP / expression-text / STARTS WITH / escaped-backslash families), then 2 in 5 \
                literal-stress histories (2-3 literals ahead of the first RETURN: an awkward first literal - ending in an escaped \
                backslash, 2-6 backslashes before the closing quote, escaped quotes, the other quote character, comment markers \
                inside, adjacent to a comment, unterminated - then literals whose inner whitespace varies per request; comments \
                containing quote characters; both quote styles; reads and CREATE), else random \
                histories of 2-7 requests over 1-2 of 14 statement templates (reads through execute, CREATE/SET/MERGE \
                through execute_mut) with per-request mutations of separators (runs of space/tab/CR/LF, comments, \
                NBSP and other Unicode spaces, empty), literal spellings (inner whitespace, quote style, escapes, \
                comment openers inside literals), keyword case, leading/trailing text; engine capacity 1-4 (eviction) or \
                1024. Engine vs fresh parse+execute on identically built stores; non-trivial = more than one request."
        .to_string();
    let tpls = templates();
    // fixed witnesses
    let w = |pairs: &[&str], write: bool| pairs.iter().map(|t| Req { text: t.to_string(), write }).collect::<Vec<_>>();
    let fixed: Vec<(usize, Vec<Req>)> = vec![
        (1024, w(&["RETURN 'a b'", "RETURN 'a  b'", "RETURN 'a b'"], false)),
        (1024, w(&[r"MATCH (n:Person) WHERE n.tag = 'C:\\' OR n.name = 'A b' RETURN n.age", r"MATCH (n:Person) WHERE n.tag = 'C:\\' OR n.name = 'A  b' RETURN n.age", r"MATCH (n:Person)  WHERE n.tag = 'C:\\' OR n.name = 'A b' RETURN n.age"], false)),
        (1024, w(&[r#"MATCH (n:Person) WHERE n.tag = "it's" OR n.name = 'A b' RETURN n.age"#, r#"MATCH (n:Person) WHERE n.tag = "it's" OR n.name = 'A  b' RETURN n.age"#], false)),
        (1024, w(&["MATCH (n:Person) /* ' */ WHERE n.name = 'A b' RETURN n.age", "MATCH (n:Person) /* ' */ WHERE n.name = 'A  b' RETURN n.age", "MATCH (n:Person) // '\n WHERE n.name = 'A  b' RETURN n.age"], false)),
        (1024, w(&[r"CREATE (:T {p: 'x\\', s: 'a b'})", r"CREATE (:T {p: 'x\\', s: 'a  b'})", r"CREATE (:T {p: 'x\\\\', s: 'a  b'})"], true)),
        (1024, w(&["MATCH (n:Person) WHERE n.name = 'A b RETURN n.age", "MATCH (n:Person) WHERE n.name = 'A  b RETURN n.age", "MATCH (n) /* x  y RETURN 1", "MATCH (n) /* x y RETURN 1"], false)),
        (1024, w(&["RETURN 1 // c\n+ 1", "RETURN 1 // c + 1", "RETURN 1 // c\n + 1"], false)),
        (1024, w(&["RETURN 1 + 2", "RETURN\u{a0}1 + 2", "RETURN 1 +  2", "RETURN  1 + 2", "RETURN 1 + 2 "], false)),
        (1024, w(&["MATCH (n:Person) RETURN n", "MATCH  (n:Person)  RETURN  n", "MATCH (n:Person)\n\tRETURN n"], false)),
        (1024, w(&["MATCH (n:Person) WHERE n.name STARTS WITH 'A' RETURN count(n)", "MATCH (n:Person) WHERE n.name STARTS  WITH 'A' RETURN count(n)", "MATCH (n:Person)  WHERE n.name STARTS WITH 'A' RETURN count(n)"], false)),
        (1, w(&["RETURN 1", "RETURN 2", "RETURN  1", "RETURN 1"], false)),
        (2, w(&["RETURN 1", "RETURN 2", "RETURN 1", "RETURN 3", "RETURN 2", "RETURN 1"], false)),
        (0, w(&["RETURN 1", "RETURN 1", "RETURN 2", "RETURN 1"], false)),
        (1024, w(&["CREATE (:T {s: 'a b'})", "CREATE (:T {s: 'a  b'})", "CREATE  (:T {s: 'a b'})"], true)),
        (1024, w(&["RETURN 1 /* a */ + 2", "RETURN 1 /* a  b */ + 2", "RETURN 1 /*/ + 2"], false)),
    ];
    for (cap, h) in &fixed {
        run_case(&mut out, *cap, h);
    }
    let n = if args.thorough { 20000 } else { 2000 };
    for c in 0..n {
        let mut r = Rng::for_case(args.seed, c);
        let cap = if r.chance(1, 5) { 1024 } else { r.range(1, 4) as usize };
        if r.chance(2, 5) {
            let (hist, tags) = gen_literal_history(&mut r);
            for t in tags {
                out.count(t);
            }
            out.count("literal_stress_histories");
            run_case(&mut out, cap, &hist);
        } else {
            let hist = gen_history(&mut r, &tpls);
            run_case(&mut out, cap, &hist);
        }
    }
    out.finish();
}
