//! C06 — graph store read views always agree with the graph that was built.
//!
//! Drives `GraphStore` with operation sequences (full and stub creation, property and label
//! changes, deletes with id reuse, compact_adjacency / finish_bulk_load anywhere), dumps every
//! read view after the observed steps and compares the dump (a) with a plain reference logical
//! graph kept here (the property's own predicate) and (b), through coqc, with the Gallina model
//! `GraphStore.v`.
use samyama::graph::{EdgeId, EdgeType, GraphError, GraphStore, Label, NodeId, PropertyMap, PropertyValue};
use std::collections::{BTreeMap, BTreeSet};
use vh::*;

type Row = Vec<u64>;
type Props = BTreeMap<u64, u64>;

#[derive(Clone, Debug)]
enum Op {
    CreateNode(Vec<u64>),
    CreateNodeP(Vec<u64>, Vec<(u64, u64)>),
    CreateNodeStub(u64),
    SetNodeProp(u64, u64, u64),
    RemoveNodeProp(u64, u64),
    AddLabel(u64, u64),
    RemoveLabel(u64, u64),
    DeleteNode(u64),
    CreateEdge(u64, u64, u64),
    CreateEdgeP(u64, u64, u64, Vec<(u64, u64)>),
    CreateEdgeStub(u64, u64, u64),
    SetEdgeProp(u64, u64, u64),
    RemoveEdgeProp(u64, u64),
    DeleteEdge(u64),
    Compact,
    FinishBulk,
}

fn lab(i: u64) -> Label {
    Label::new(format!("L{}", i))
}
fn typ(i: u64) -> EdgeType {
    EdgeType::new(format!("T{}", i))
}
fn key(i: u64) -> String {
    format!("k{}", i)
}
fn num(s: &str) -> u64 {
    s[1..].parse().unwrap_or(99)
}
fn val(v: &PropertyValue) -> u64 {
    match v {
        PropertyValue::Integer(i) => *i as u64,
        _ => 999,
    }
}
fn pmap(ps: &[(u64, u64)]) -> PropertyMap {
    let mut m = PropertyMap::new();
    for (k, v) in ps {
        m.insert(key(*k), PropertyValue::Integer(*v as i64));
    }
    m
}

fn g_props(ps: &[(u64, u64)]) -> String {
    g_list(ps.iter().map(|(k, v)| format!("({}, {})", k, v)))
}
fn g_ns(v: &[u64]) -> String {
    g_list(v.iter().map(|x| x.to_string()))
}
/// `h` = the id the implementation handed out (the model's allocation hint)
fn g_op(o: &Op, h: u64) -> String {
    match o {
        Op::CreateNode(l) => format!("CreateNode {} {}", h, g_ns(l)),
        Op::CreateNodeP(l, p) => format!("CreateNodeP {} {} {}", h, g_ns(l), g_props(p)),
        Op::CreateNodeStub(l) => format!("CreateNodeStub {} {}", h, l),
        Op::SetNodeProp(i, k, v) => format!("SetNodeProp {} {} {}", i, k, v),
        Op::RemoveNodeProp(i, k) => format!("RemoveNodeProp {} {}", i, k),
        Op::AddLabel(i, l) => format!("AddLabel {} {}", i, l),
        Op::RemoveLabel(i, l) => format!("RemoveLabel {} {}", i, l),
        Op::DeleteNode(i) => format!("DeleteNode {}", i),
        Op::CreateEdge(a, b, t) => format!("CreateEdge {} {} {} {}", h, a, b, t),
        Op::CreateEdgeP(a, b, t, p) => format!("CreateEdgeP {} {} {} {} {}", h, a, b, t, g_props(p)),
        Op::CreateEdgeStub(a, b, t) => format!("CreateEdgeStub {} {} {} {}", h, a, b, t),
        Op::SetEdgeProp(e, k, v) => format!("SetEdgeProp {} {} {}", e, k, v),
        Op::RemoveEdgeProp(e, k) => format!("RemoveEdgeProp {} {}", e, k),
        Op::DeleteEdge(e) => format!("DeleteEdge {}", e),
        Op::Compact => "Compact".to_string(),
        Op::FinishBulk => "FinishBulk".to_string(),
    }
}

fn err_class(e: &GraphError) -> u64 {
    match e {
        GraphError::NodeNotFound(_) => 1,
        GraphError::EdgeNotFound(_) => 2,
        GraphError::InvalidEdgeSource(_) => 3,
        GraphError::InvalidEdgeTarget(_) => 4,
        _ => 9,
    }
}

/// Apply one operation to the implementation; result row = [0, value] or [1, error class].
fn apply(s: &mut GraphStore, o: &Op) -> Row {
    fn r<T>(x: Result<T, GraphError>, f: impl Fn(T) -> u64) -> Row {
        match x {
            Ok(v) => vec![0, f(v)],
            Err(e) => vec![1, err_class(&e)],
        }
    }
    match o {
        Op::CreateNode(l) => vec![0, s.create_node_with_labels(l.iter().map(|x| lab(*x))).as_u64()],
        Op::CreateNodeP(l, p) => {
            vec![0, s.create_node_with_properties("default", l.iter().map(|x| lab(*x)).collect(), pmap(p)).as_u64()]
        }
        Op::CreateNodeStub(l) => vec![0, s.create_node_stub(lab(*l)).as_u64()],
        Op::SetNodeProp(i, k, v) => r(s.set_node_property("default", NodeId::new(*i), key(*k), *v as i64), |_| 0),
        Op::RemoveNodeProp(i, k) => {
            s.remove_node_property(NodeId::new(*i), &key(*k));
            vec![0, 0]
        }
        Op::AddLabel(i, l) => r(s.add_label_to_node("default", NodeId::new(*i), lab(*l)), |_| 0),
        Op::RemoveLabel(i, l) => r(s.remove_label_from_node(NodeId::new(*i), &lab(*l)), |b| b as u64),
        Op::DeleteNode(i) => r(s.delete_node("default", NodeId::new(*i)), |_| 0),
        Op::CreateEdge(a, b, t) => r(s.create_edge(NodeId::new(*a), NodeId::new(*b), typ(*t)), |e| e.as_u64()),
        Op::CreateEdgeP(a, b, t, p) => {
            r(s.create_edge_with_properties(NodeId::new(*a), NodeId::new(*b), typ(*t), pmap(p)), |e| e.as_u64())
        }
        Op::CreateEdgeStub(a, b, t) => r(s.create_edge_stub(NodeId::new(*a), NodeId::new(*b), typ(*t)), |e| e.as_u64()),
        Op::SetEdgeProp(e, k, v) => r(s.set_edge_property(EdgeId::new(*e), key(*k), *v as i64), |_| 0),
        Op::RemoveEdgeProp(e, k) => {
            s.remove_edge_property(EdgeId::new(*e), &key(*k));
            vec![0, 0]
        }
        Op::DeleteEdge(e) => r(s.delete_edge(EdgeId::new(*e)), |_| 0),
        Op::Compact => {
            s.compact_adjacency();
            vec![0, 0]
        }
        Op::FinishBulk => {
            s.finish_bulk_load();
            vec![0, 0]
        }
    }
}

// ---------- reference logical graph (the property's own predicate) ----------
#[derive(Default, Clone)]
struct Ref {
    nodes: BTreeMap<u64, (BTreeSet<u64>, Props)>,
    rels: BTreeMap<u64, (u64, u64, u64, Props)>,
    /// nodes whose outgoing write-buffer slice got a stub append since the last compaction
    unsorted: BTreeSet<u64>,
    tstale: bool,
}

impl Ref {
    /// Expected result row (ids are taken from the implementation and checked for freshness).
    fn step(&mut self, o: &Op, got: &Row) -> Result<Row, String> {
        let fresh_node = |me: &Ref, got: &Row| -> Result<u64, String> {
            if got.len() != 2 || got[0] != 0 {
                return Err(format!("node creation returned {:?}", got));
            }
            if got[1] == 0 || me.nodes.contains_key(&got[1]) {
                return Err(format!("node creation handed out id {} which is live (or 0)", got[1]));
            }
            Ok(got[1])
        };
        let props = |p: &[(u64, u64)]| -> Props { p.iter().cloned().collect() };
        Ok(match o {
            Op::CreateNode(l) => {
                let id = fresh_node(self, got)?;
                self.nodes.insert(id, (l.iter().cloned().collect(), Props::new()));
                vec![0, id]
            }
            Op::CreateNodeP(l, p) => {
                let id = fresh_node(self, got)?;
                self.nodes.insert(id, (l.iter().cloned().collect(), props(p)));
                vec![0, id]
            }
            Op::CreateNodeStub(l) => {
                let id = fresh_node(self, got)?;
                self.nodes.insert(id, ([*l].into_iter().collect(), Props::new()));
                vec![0, id]
            }
            Op::SetNodeProp(i, k, v) => match self.nodes.get_mut(i) {
                Some(n) => {
                    n.1.insert(*k, *v);
                    vec![0, 0]
                }
                None => vec![1, 1],
            },
            Op::RemoveNodeProp(i, k) => {
                if let Some(n) = self.nodes.get_mut(i) {
                    n.1.remove(k);
                }
                vec![0, 0]
            }
            Op::AddLabel(i, l) => match self.nodes.get_mut(i) {
                Some(n) => {
                    n.0.insert(*l);
                    vec![0, 0]
                }
                None => vec![1, 1],
            },
            Op::RemoveLabel(i, l) => match self.nodes.get_mut(i) {
                Some(n) => vec![0, n.0.remove(l) as u64],
                None => vec![1, 1],
            },
            Op::DeleteNode(i) => {
                if self.nodes.remove(i).is_some() {
                    self.rels.retain(|_, r| r.0 != *i && r.1 != *i);
                    vec![0, 0]
                } else {
                    vec![1, 1]
                }
            }
            Op::CreateEdge(a, b, t) | Op::CreateEdgeStub(a, b, t) | Op::CreateEdgeP(a, b, t, _) => {
                if !self.nodes.contains_key(a) {
                    vec![1, 3]
                } else if !self.nodes.contains_key(b) {
                    vec![1, 4]
                } else {
                    if got.len() != 2 || got[0] != 0 {
                        return Err(format!("edge creation between live nodes returned {:?}", got));
                    }
                    let id = got[1];
                    if id == 0 || self.rels.contains_key(&id) {
                        return Err(format!("edge creation handed out id {} which is live (or 0)", id));
                    }
                    let p = if let Op::CreateEdgeP(_, _, _, p) = o { props(p) } else { Props::new() };
                    self.rels.insert(id, (*a, *b, *t, p));
                    if matches!(o, Op::CreateEdgeStub(..)) {
                        self.unsorted.insert(*a);
                        self.tstale = true;
                    }
                    vec![0, id]
                }
            }
            Op::SetEdgeProp(e, k, v) => match self.rels.get_mut(e) {
                Some(r) => {
                    r.3.insert(*k, *v);
                    vec![0, 0]
                }
                None => vec![1, 2],
            },
            Op::RemoveEdgeProp(e, k) => {
                if let Some(r) = self.rels.get_mut(e) {
                    r.3.remove(k);
                }
                vec![0, 0]
            }
            Op::DeleteEdge(e) => {
                if self.rels.remove(e).is_some() {
                    vec![0, 0]
                } else {
                    vec![1, 2]
                }
            }
            Op::Compact => {
                self.unsorted.clear();
                vec![0, 0]
            }
            Op::FinishBulk => {
                self.unsorted.clear();
                self.tstale = false;
                vec![0, 0]
            }
        })
    }

    fn dump(&self, maxn: u64, maxe: u64) -> Vec<Row> {
        let mut rows = Vec::new();
        let prow = |p: &Props| -> Row { p.iter().flat_map(|(k, v)| [*k, *v]).collect() };
        for n in 0..=maxn {
            match self.nodes.get(&n) {
                None => {
                    rows.push(vec![0]);
                    rows.push(vec![]);
                }
                Some((ls, ps)) => {
                    let mut r = vec![1, ls.len() as u64];
                    r.extend(ls.iter());
                    r.extend(prow(ps));
                    rows.push(r);
                    rows.push(prow(ps));
                }
            }
            let out: Vec<Row> = self.rels.iter().filter(|(_, r)| r.0 == n).map(|(e, r)| vec![*e, r.0, r.1, r.2]).collect();
            let inc: Vec<Row> = self.rels.iter().filter(|(_, r)| r.1 == n).map(|(e, r)| vec![*e, r.0, r.1, r.2]).collect();
            rows.push(flat_sorted(out.clone()));
            rows.push(flat_sorted(inc.clone()));
            rows.push(flat_sorted(out));
            rows.push(flat_sorted(inc));
            let mut d = Vec::new();
            for t in 0..4 {
                d.push(self.rels.values().filter(|r| r.0 == n && r.2 == t).count() as u64);
            }
            for t in 0..4 {
                d.push(self.rels.values().filter(|r| r.1 == n && r.2 == t).count() as u64);
            }
            rows.push(d);
        }
        for e in 0..=maxe {
            match self.rels.get(&e) {
                None => {
                    rows.push(vec![0]);
                    rows.push(vec![]);
                }
                Some(r) => {
                    let mut x = vec![1, r.0, r.1, r.2];
                    x.extend(prow(&r.3));
                    rows.push(x);
                    rows.push(prow(&r.3));
                }
            }
        }
        for a in 1..=maxn {
            if self.unsorted.contains(&a) {
                continue;
            }
            {
                for b in 1..=maxn {
                    let all: Row = self.rels.iter().filter(|(_, r)| r.0 == a && r.1 == b).map(|(e, _)| *e).collect();
                    let nonempty = !all.is_empty();
                    rows.push(all);
                    if nonempty {
                        for t in 0..4 {
                            rows.push(self.rels.iter().filter(|(_, r)| r.0 == a && r.1 == b && r.2 == t).map(|(e, _)| *e).collect());
                        }
                    }
                }
            }
        }
        for l in 0..4 {
            rows.push(self.nodes.iter().filter(|(_, n)| n.0.contains(&l)).map(|(i, _)| *i).collect());
        }
        if !self.tstale {
            for t in 0..4 {
                rows.push(self.rels.iter().filter(|(_, r)| r.2 == t).map(|(e, _)| *e).collect());
            }
        }
        rows.push(vec![self.nodes.len() as u64, self.rels.len() as u64]);
        rows
    }
}

fn flat_sorted(mut v: Vec<Row>) -> Row {
    v.sort();
    v.into_iter().flatten().collect()
}

fn prow_map(m: &PropertyMap) -> Row {
    let mut v: Vec<Row> = m.iter().map(|(k, v)| vec![num(k), val(v)]).collect();
    v.sort();
    v.into_iter().flatten().collect()
}

/// Dump every read view of the implementation; `extra` collects consistency failures between
/// sibling accessors (for_each_* vs *_targets, has_edge vs get_edge, counts vs lists).
fn impl_dump(s: &GraphStore, maxn: u64, maxe: u64, unsorted: &BTreeSet<u64>, tstale: bool, extra: &mut Vec<String>) -> Vec<Row> {
    let mut rows = Vec::new();
    for n in 0..=maxn {
        let id = NodeId::new(n);
        match s.get_node(id) {
            None => rows.push(vec![0]),
            Some(node) => {
                let mut ls: Vec<u64> = node.labels.iter().map(|l| num(l.as_str())).collect();
                ls.sort();
                let mut r = vec![1, ls.len() as u64];
                r.extend(ls);
                r.extend(prow_map(&node.properties));
                rows.push(r);
            }
        }
        if s.has_node(id) != s.get_node(id).is_some() {
            extra.push(format!("has_node({}) disagrees with get_node", n));
        }
        let idx = n as usize;
        let mut col: Vec<Row> =
            s.node_columns.get_property_keys(idx).iter().map(|k| vec![num(k), val(&s.node_columns.get_property(idx, k))]).collect();
        col.sort();
        rows.push(col.into_iter().flatten().collect());
        let e4 = |e: &samyama::graph::Edge| vec![e.id.as_u64(), e.source.as_u64(), e.target.as_u64(), num(e.edge_type.as_str())];
        rows.push(flat_sorted(s.get_outgoing_edges(id).iter().map(e4).collect()));
        rows.push(flat_sorted(s.get_incoming_edges(id).iter().map(e4).collect()));
        let t4 = |x: &(EdgeId, NodeId, NodeId, EdgeType)| vec![x.0.as_u64(), x.1.as_u64(), x.2.as_u64(), num(x.3.as_str())];
        let ot = s.get_outgoing_edge_targets(id);
        let is = s.get_incoming_edge_sources(id);
        rows.push(flat_sorted(ot.iter().map(t4).collect()));
        rows.push(flat_sorted(is.iter().map(t4).collect()));
        // for_each_* must visit exactly the (neighbour, edge) pairs of the tuple accessors
        let mut fo: Vec<(u64, u64)> = Vec::new();
        s.for_each_outgoing_neighbor(id, None, |nb, e| fo.push((nb.as_u64(), e.as_u64())));
        let mut fi: Vec<(u64, u64)> = Vec::new();
        s.for_each_incoming_neighbor(id, None, |nb, e| fi.push((nb.as_u64(), e.as_u64())));
        fo.sort();
        fi.sort();
        let mut eo: Vec<(u64, u64)> = ot.iter().map(|x| (x.2.as_u64(), x.0.as_u64())).collect();
        let mut ei: Vec<(u64, u64)> = is.iter().map(|x| (x.1.as_u64(), x.0.as_u64())).collect();
        eo.sort();
        ei.sort();
        if fo != eo || fi != ei {
            extra.push(format!("for_each_*_neighbor({}) = {:?}/{:?} but edge targets/sources = {:?}/{:?}", n, fo, fi, eo, ei));
        }
        let mut d = Vec::new();
        for t in 0..4 {
            d.push(s.outgoing_degree_for_type(id, &typ(t)) as u64);
            let mut c = 0u64;
            s.for_each_outgoing_neighbor_of_type(id, &typ(t), |_| c += 1);
            if c != *d.last().unwrap() {
                extra.push(format!("for_each_outgoing_neighbor_of_type({},T{}) visits {} but degree is {}", n, t, c, d.last().unwrap()));
            }
        }
        for t in 0..4 {
            d.push(s.incoming_degree_for_type(id, &typ(t)) as u64);
        }
        rows.push(d);
    }
    for e in 0..=maxe {
        let id = EdgeId::new(e);
        let ge = s.get_edge(id);
        if s.has_edge(id) != ge.is_some() {
            extra.push(format!("has_edge({}) = {} but get_edge is {:?}", e, s.has_edge(id), ge.is_some()));
        }
        match ge {
            None => rows.push(vec![0]),
            Some(ed) => {
                let mut x = vec![1, ed.source.as_u64(), ed.target.as_u64(), num(ed.edge_type.as_str())];
                x.extend(prow_map(&ed.properties));
                rows.push(x);
            }
        }
        let idx = e as usize;
        let mut col: Vec<Row> =
            s.edge_columns.get_property_keys(idx).iter().map(|k| vec![num(k), val(&s.edge_columns.get_property(idx, k))]).collect();
        col.sort();
        rows.push(col.into_iter().flatten().collect());
    }
    for a in 1..=maxn {
        if unsorted.contains(&a) {
            continue;
        }
        {
            for b in 1..=maxn {
                let mut all: Row = s.edges_between(NodeId::new(a), NodeId::new(b), None).iter().map(|e| e.as_u64()).collect();
                all.sort();
                let one = s.edge_between(NodeId::new(a), NodeId::new(b), None).map(|e| e.as_u64());
                if one.is_some() != !all.is_empty() || one.map_or(false, |e| !all.contains(&e)) {
                    extra.push(format!("edge_between({},{}) = {:?} but edges_between = {:?}", a, b, one, all));
                }
                let nonempty = !all.is_empty();
                rows.push(all);
                if nonempty {
                    for t in 0..4 {
                        let mut r: Row =
                            s.edges_between(NodeId::new(a), NodeId::new(b), Some(&typ(t))).iter().map(|e| e.as_u64()).collect();
                        r.sort();
                        rows.push(r);
                    }
                }
            }
        }
    }
    for l in 0..4 {
        let mut r: Row = s.get_nodes_by_label(&lab(l)).iter().map(|n| n.id.as_u64()).collect();
        r.sort();
        if s.label_node_count(&lab(l)) != r.len() {
            extra.push(format!("label_node_count(L{}) = {} but get_nodes_by_label has {}", l, s.label_node_count(&lab(l)), r.len()));
        }
        rows.push(r);
    }
    if !tstale {
        for t in 0..4 {
            let mut r: Row = s.get_edges_by_type(&typ(t)).iter().map(|e| e.id.as_u64()).collect();
            r.sort();
            if s.edge_type_count(&typ(t)) != r.len() {
                extra.push(format!("edge_type_count(T{}) = {} but get_edges_by_type has {}", t, s.edge_type_count(&typ(t)), r.len()));
            }
            rows.push(r);
        }
    }
    let all_edges = s.all_edges().len();
    if all_edges != s.edge_count() {
        extra.push(format!("all_edges() has {} but edge_count() = {}", all_edges, s.edge_count()));
    }
    rows.push(vec![s.node_count() as u64, s.edge_count() as u64]);
    rows
}

/// rows as hexadecimal literals: a leading 1, then one digit per number (all < 16; larger
/// values, which only a defect can produce, are clamped to 15 and so still disagree)
fn g_rows(rows: &[Row]) -> String {
    g_list(rows.iter().map(|r| {
        let mut s = String::with_capacity(r.len() + 3);
        s.push_str("0x1");
        for d in r {
            s.push(std::char::from_digit((*d).min(15) as u32, 16).unwrap());
        }
        s
    }))
}

struct Stats {
    compact_then_delete_then_reuse: bool,
    frozen_delete: bool,
    node_reuse: bool,
    edge_reuse: bool,
    stub_finish: bool,
    multi_segment: bool,
    /// a buffered, non-last (by neighbour) entry of a slice with >= 3 buffered entries was deleted and a
    /// relationships-between lookup on that source was observed before the next compaction
    nonlast_delete_then_between: bool,
    /// a node had >= 3 out-edges in the write buffer when a between-lookup was observed
    fan3_between: bool,
}

/// generator health for the relationships-between lookups (called whenever a dump is taken)
fn note_between(rf: &Ref, buffer_ids: &BTreeSet<u64>, pending_src: Option<u64>, st: &mut Stats) {
    if let Some(a) = pending_src {
        if !rf.unsorted.contains(&a) {
            st.nonlast_delete_then_between = true;
        }
    }
    let mut per_src: BTreeMap<u64, usize> = BTreeMap::new();
    for (id, r) in &rf.rels {
        if buffer_ids.contains(id) && !rf.unsorted.contains(&r.0) {
            *per_src.entry(r.0).or_insert(0) += 1;
        }
    }
    if per_src.values().any(|c| *c >= 3) {
        st.fan3_between = true;
    }
}

/// Run a case. `observe(i, len)` says whether step i is dumped. `next` produces the ops adaptively.
fn run_case(out: &mut Out, mut next: impl FnMut(&Ref, u64, u64, usize) -> Option<Op>, observe: impl Fn(usize, &Op) -> bool, last_only_len: Option<usize>) {
    let idx = out.next_index();
    if !out.wants(idx) {
        out.skip();
        return;
    }
    let mut s = GraphStore::new();
    let mut rf = Ref::default();
    let (mut maxn, mut maxe) = (0u64, 0u64);
    let mut ops: Vec<Op> = Vec::new();
    let mut steps: Vec<String> = Vec::new();
    let mut bad: Option<String> = None;
    let mut st = Stats { compact_then_delete_then_reuse: false, frozen_delete: false, node_reuse: false, edge_reuse: false, stub_finish: false, multi_segment: false, nonlast_delete_then_between: false, fan3_between: false };
    let mut pending_src: Option<u64> = None;
    let mut compactions = 0u32;
    let mut buffer_since_compact = false;
    let mut frozen_ids: BTreeSet<u64> = BTreeSet::new();
    let mut buffer_ids: BTreeSet<u64> = BTreeSet::new();
    let mut dead_nodes: BTreeSet<u64> = BTreeSet::new();
    let mut dead_edges: BTreeSet<u64> = BTreeSet::new();
    let mut frozen_deleted = false;
    let mut stub_pending = false;
    let mut i = 0usize;
    while let Some(o) = next(&rf, maxn, maxe, i) {
        let got = match catch(std::panic::AssertUnwindSafe(|| apply(&mut s, &o))) {
            Ok(r) => r,
            Err(p) => {
                bad.get_or_insert(format!("step {} {:?}: panic: {}", i, o, p));
                ops.push(o);
                break;
            }
        };
        // bookkeeping for generator health
        match &o {
            Op::CreateNode(_) | Op::CreateNodeP(..) | Op::CreateNodeStub(_) => {
                if dead_nodes.contains(&got[1]) {
                    st.node_reuse = true;
                }
                maxn = maxn.max(got[1]);
            }
            Op::CreateEdge(..) | Op::CreateEdgeP(..) | Op::CreateEdgeStub(..) if got[0] == 0 => {
                if dead_edges.contains(&got[1]) {
                    st.edge_reuse = true;
                    if frozen_deleted {
                        st.compact_then_delete_then_reuse = true;
                    }
                }
                maxe = maxe.max(got[1]);
                buffer_ids.insert(got[1]);
                buffer_since_compact = true;
                if matches!(o, Op::CreateEdgeStub(..)) {
                    stub_pending = true;
                }
            }
            Op::Compact | Op::FinishBulk => {
                if buffer_since_compact {
                    compactions += 1;
                    if compactions >= 2 {
                        st.multi_segment = true;
                    }
                }
                buffer_since_compact = false;
                frozen_ids.extend(buffer_ids.iter());
                buffer_ids.clear();
                if matches!(o, Op::FinishBulk) && stub_pending {
                    st.stub_finish = true;
                    stub_pending = false;
                }
            }
            _ => {}
        }
        match &o {
            Op::DeleteEdge(e) if buffer_ids.contains(e) => {
                if let Some(r) = rf.rels.get(e) {
                    let slice: Vec<u64> = rf.rels.iter().filter(|(id, x)| x.0 == r.0 && buffer_ids.contains(id)).map(|(_, x)| x.1).collect();
                    if slice.len() >= 3 && r.1 < *slice.iter().max().unwrap() {
                        pending_src = Some(r.0);
                    }
                }
            }
            Op::Compact | Op::FinishBulk => pending_src = None,
            _ => {}
        }
        let before_rels: BTreeSet<u64> = rf.rels.keys().cloned().collect();
        let before_nodes: BTreeSet<u64> = rf.nodes.keys().cloned().collect();
        match rf.step(&o, &got) {
            Ok(exp) => {
                if exp != got && bad.is_none() {
                    bad = Some(format!("step {} {:?}: returned {:?}, the logical graph expects {:?}", i, o, got, exp));
                }
            }
            Err(e) => {
                bad.get_or_insert(format!("step {} {:?}: {}", i, o, e));
            }
        }
        for e in before_rels.difference(&rf.rels.keys().cloned().collect()) {
            dead_edges.insert(*e);
            if frozen_ids.contains(e) {
                st.frozen_delete = true;
                frozen_deleted = true;
            }
            frozen_ids.remove(e);
            buffer_ids.remove(e);
        }
        for n in before_nodes.difference(&rf.nodes.keys().cloned().collect()) {
            dead_nodes.insert(*n);
        }
        let obs = observe(i, &o) && last_only_len.map_or(true, |_| false);
        let mut d = "None".to_string();
        if obs {
            note_between(&rf, &buffer_ids, pending_src, &mut st);
            let (dn, de) = (maxn + 1, maxe + 1);
            let mut extra = Vec::new();
            let rows = impl_dump(&s, dn, de, &rf.unsorted, rf.tstale, &mut extra);
            let exp = rf.dump(dn, de);
            if bad.is_none() {
                if let Some(x) = extra.first() {
                    bad = Some(format!("step {} {:?}: {}", i, o, x));
                } else if rows != exp {
                    let k = rows.iter().zip(exp.iter()).position(|(a, b)| a != b).unwrap_or(rows.len().min(exp.len()));
                    bad = Some(format!(
                        "step {} {:?}: read view row {} is {:?}, the logical graph gives {:?} (rows per node: get_node, column row, out edges, in edges, out targets, in sources, degrees; then per edge: get_edge, column row; then edges_between, by label, by type, counts)",
                        i, o, k, rows.get(k), exp.get(k)
                    ));
                }
            }
            d = format!("(Some ({}, {}, {}))", dn, de, g_rows(&rows));
        }
        steps.push(format!("({}, {}, {})", g_op(&o, if got[0] == 0 { got[1] } else { 0 }), g_ns(&got), d));
        ops.push(o);
        i += 1;
    }
    // "last only" mode: one dump after the final operation
    if last_only_len.is_some() && !steps.is_empty() && bad.as_ref().map_or(true, |b| !b.contains("panic")) {
        note_between(&rf, &buffer_ids, pending_src, &mut st);
        let (dn, de) = (maxn + 1, maxe + 1);
        let mut extra = Vec::new();
        let rows = impl_dump(&s, dn, de, &rf.unsorted, rf.tstale, &mut extra);
        let exp = rf.dump(dn, de);
        let o = ops.last().unwrap();
        if bad.is_none() {
            if let Some(x) = extra.first() {
                bad = Some(format!("after {:?}: {}", o, x));
            } else if rows != exp {
                let k = rows.iter().zip(exp.iter()).position(|(a, b)| a != b).unwrap_or(rows.len().min(exp.len()));
                bad = Some(format!("after the last operation: read view row {} is {:?}, the logical graph gives {:?}", k, rows.get(k), exp.get(k)));
            }
        }
        let last = steps.pop().unwrap();
        // replace the trailing "None" of the last step by the dump
        let cut = last.rfind("None").unwrap();
        steps.push(format!("{}(Some ({}, {}, {})))", &last[..cut], dn, de, g_rows(&rows)));
    }
    if st.frozen_delete {
        out.count("deleted_frozen_edge");
    }
    if st.compact_then_delete_then_reuse {
        out.count("edge_id_reused_after_frozen_delete");
    }
    if st.node_reuse {
        out.count("node_id_reused");
    }
    if st.edge_reuse {
        out.count("edge_id_reused");
    }
    if st.stub_finish {
        out.count("stub_load_finished");
    }
    if st.multi_segment {
        out.count("two_or_more_segments");
    }
    if st.nonlast_delete_then_between {
        out.count("nonlast_buffered_delete_then_between");
    }
    if st.fan3_between {
        out.count("between_on_buffered_fan3");
    }
    out.count_n("ops", ops.len() as u64);
    let human = format!("{}", g_list(ops.iter().map(|o| g_op(o, 0))));
    let ci = out.case(g_list(steps), human.clone(), ops.len() > 1);
    if let Some(b) = bad {
        out.fail(ci, &human, &b, None);
    }
}

fn rand_props(r: &mut Rng) -> Vec<(u64, u64)> {
    let n = r.range(1, 2);
    (0..n).map(|_| (r.below(3), r.range(1, 5))).collect()
}

/// One random operation, biased towards valid ids and towards the interesting order
/// (compaction, then deletes, then creations).
fn rand_op(r: &mut Rng, rf: &Ref, maxn: u64, maxe: u64) -> Op {
    let live_n: Vec<u64> = rf.nodes.keys().cloned().collect();
    let live_e: Vec<u64> = rf.rels.keys().cloned().collect();
    let node = |r: &mut Rng| -> u64 {
        if !live_n.is_empty() && r.chance(9, 10) {
            *r.pick(&live_n)
        } else {
            r.range(0, maxn + 1)
        }
    };
    let edge = |r: &mut Rng| -> u64 {
        if !live_e.is_empty() && r.chance(9, 10) {
            *r.pick(&live_e)
        } else {
            r.range(0, maxe + 1)
        }
    };
    let can_node = live_n.len() < 6 && (maxn < 6 || live_n.len() < maxn as usize);
    let can_edge = live_e.len() < 8 && maxe < 14;
    loop {
        let o = match r.below(40) {
            0..=2 if can_node => Op::CreateNode((0..r.below(3)).map(|_| r.below(3)).collect()),
            3..=4 if can_node => Op::CreateNodeP((0..r.range(1, 2)).map(|_| r.below(3)).collect(), rand_props(r)),
            5..=6 if can_node => Op::CreateNodeStub(r.below(3)),
            7..=8 => Op::SetNodeProp(node(r), r.below(3), r.range(1, 5)),
            9 => Op::RemoveNodeProp(node(r), r.below(3)),
            10..=11 => Op::AddLabel(node(r), r.below(3)),
            12 => Op::RemoveLabel(node(r), r.below(3)),
            13..=14 => Op::DeleteNode(node(r)),
            15..=20 if can_edge => Op::CreateEdge(node(r), node(r), r.below(3)),
            21..=22 if can_edge => Op::CreateEdgeP(node(r), node(r), r.below(3), rand_props(r)),
            23..=25 if can_edge => Op::CreateEdgeStub(node(r), node(r), r.below(3)),
            26..=27 => Op::SetEdgeProp(edge(r), r.below(3), r.range(1, 5)),
            28 => Op::RemoveEdgeProp(edge(r), r.below(3)),
            29..=33 => Op::DeleteEdge(edge(r)),
            34..=36 => Op::Compact,
            37..=38 => Op::FinishBulk,
            _ => continue,
        };
        return o;
    }
}

fn main() {
    let args = parse_args();
    quiet_panics();
    let mut out = Out::new(&args, "From Verif Require Import GraphStore.", "GraphStore.case", "GraphStore.check_case", if args.thorough { 500 } else { 250 });
    out.rule = "exhaustive: every sequence of length 1..L-1 and every 4th (quick) / 3rd (thorough) sequence of length L, rotating with the seed (L=4 quick, 5 thorough), over a 10-operation alphabet \
                (create edge 1->2, stub edge 2->1, self-loop on 1, delete edge 1, delete edge 2, delete node 1, create node, \
                compact, finish_bulk_load, set property on edge 1) after two node creations, every read view dumped after the \
                last operation (all proper prefixes are cases of their own); random: histories of <=40 (quick) / <=60 (thorough) \
                operations over <=6 nodes, 3 labels, 3 types, 3 keys, all 16 operations incl. compaction/bulk finish at random \
                points, every read view dumped after every operation for ids 0..max+1. Non-trivial = more than one operation; \
                fans: five nodes then every sequence of length 1..4 (quick) / 1..5 (thorough) over an 8-operation alphabet \
                (create 1->2, 1->3, 1->4, 1->5, delete edge 1/2/3, compact), views after the last operation; plus random fans \
                (a hub with 3..6 buffered out/in edges, deletes biased to first/middle entries), views after every operation. \
                edges_between/edge_between are observed for every (source, target) pair whose source slice had no stub append \
                since the last compaction. distinct by operation list."
        .to_string();

    // ---- exhaustive small scope ----
    let alphabet: Vec<Op> = vec![
        Op::CreateEdge(1, 2, 0),
        Op::CreateEdgeStub(2, 1, 0),
        Op::CreateEdge(1, 1, 0),
        Op::DeleteEdge(1),
        Op::DeleteEdge(2),
        Op::DeleteNode(1),
        Op::CreateNode(vec![0]),
        Op::Compact,
        Op::FinishBulk,
        Op::SetEdgeProp(1, 0, 1),
    ];
    let maxlen = if args.thorough { 5 } else { 4 };
    let base = vec![Op::CreateNode(vec![0]), Op::CreateNodeP(vec![0, 1], vec![(0, 1)])];
    // random histories are interleaved with the exhaustive ones so that shards are balanced
    let (cases, maxops) = if args.thorough { (1000u64, 60u64) } else { (200u64, 40u64) };
    // the longest length is sampled (1 in 4 quick, 1 in 3 thorough, rotating with the seed)
    let stride: u64 = if args.thorough { 3 } else { 4 };
    let exhaustive_total: u64 = (1..maxlen).map(|l| (alphabet.len() as u64).pow(l as u32)).sum::<u64>()
        + (alphabet.len() as u64).pow(maxlen as u32) / stride;
    let every = (exhaustive_total / cases).max(1);
    let mut emitted = 0u64;
    let mut rc = 0u64;
    let mut random_case = |out: &mut Out, c: u64| {
        let mut r = Rng::for_case(args.seed, c);
        let nops = r.range(4, maxops) as usize;
        run_case(out, |rf, maxn, maxe, i| if i < nops { Some(rand_op(&mut r, rf, maxn, maxe)) } else { None }, |_, _| true, None);
    };
    for len in 1..=maxlen {
        let total = (alphabet.len() as u64).pow(len as u32);
        for code in 0..total {
            if len == maxlen && code % stride != args.seed % stride {
                continue;
            }
            let mut seq = base.clone();
            let mut c = code;
            for _ in 0..len {
                seq.push(alphabet[(c % alphabet.len() as u64) as usize].clone());
                c /= alphabet.len() as u64;
            }
            let n = seq.len();
            run_case(&mut out, |_, _, _, i| seq.get(i).cloned(), |_, _| false, Some(n));
            emitted += 1;
            if emitted % every == 0 && rc < cases {
                random_case(&mut out, rc);
                rc += 1;
            }
        }
    }
    while rc < cases {
        random_case(&mut out, rc);
        rc += 1;
    }
    // ---- fans: one source with several buffered out-edges, deletes of first/middle entries ----
    // exhaustive: five nodes, then every sequence of length 1..F over create 1->2, 1->3, 1->4, 1->5 (second
    // type), delete edge 1/2/3, compact; all read views (edges_between for every pair) after the last op
    let fan_alphabet: Vec<Op> = vec![
        Op::CreateEdge(1, 2, 0),
        Op::CreateEdge(1, 3, 0),
        Op::CreateEdge(1, 4, 0),
        Op::CreateEdge(1, 5, 1),
        Op::DeleteEdge(1),
        Op::DeleteEdge(2),
        Op::DeleteEdge(3),
        Op::Compact,
    ];
    let fan_base: Vec<Op> = (0..5).map(|i| Op::CreateNode(vec![i % 3])).collect();
    let fan_len = if args.thorough { 5 } else { 4 };
    for len in 1..=fan_len {
        let total = (fan_alphabet.len() as u64).pow(len as u32);
        for code in 0..total {
            let mut seq = fan_base.clone();
            let mut c = code;
            for _ in 0..len {
                seq.push(fan_alphabet[(c % fan_alphabet.len() as u64) as usize].clone());
                c /= fan_alphabet.len() as u64;
            }
            let n = seq.len();
            run_case(&mut out, |_, _, _, i| seq.get(i).cloned(), |_, _| false, Some(n));
        }
    }
    // random fans: a hub with 3..6 out- and in-edges kept in the write buffer (some edges compacted
    // before), then deletes biased to the first/middle entries mixed with new edges; every view after every op
    let fan_cases = if args.thorough { 800u64 } else { 150u64 };
    for c in 0..fan_cases {
        let mut r = Rng::for_case(args.seed ^ 0xFA17, c);
        let nn = r.range(4, 6);
        let hub = r.range(1, nn);
        let mut script: Vec<Op> = (0..nn).map(|_| Op::CreateNode(vec![r.below(3)])).collect();
        if r.chance(1, 3) {
            for _ in 0..r.range(1, 3) {
                script.push(Op::CreateEdge(r.range(1, nn), r.range(1, nn), r.below(3)));
            }
            script.push(if r.chance(1, 2) { Op::Compact } else { Op::FinishBulk });
        }
        for _ in 0..r.range(3, 6) {
            let t = r.range(1, nn);
            script.push(if r.chance(1, 5) { Op::CreateEdgeP(hub, t, r.below(3), rand_props(&mut r)) } else { Op::CreateEdge(hub, t, r.below(3)) });
            if r.chance(1, 2) {
                script.push(Op::CreateEdge(r.range(1, nn), hub, r.below(3)));
            }
        }
        let tail = r.range(3, 12) as usize;
        let scripted = script.len();
        let mut r2 = r.clone();
        run_case(
            &mut out,
            |rf, _, maxe, i| {
                if i < scripted {
                    return Some(script[i].clone());
                }
                if i >= scripted + tail {
                    return None;
                }
                // deletes of the hub's out/in edges with the smallest / a middle neighbour, new edges, a rare stub elsewhere
                let mut outs: Vec<(u64, u64)> = rf.rels.iter().filter(|(_, x)| x.0 == hub).map(|(id, x)| (x.1, *id)).collect();
                let mut ins: Vec<(u64, u64)> = rf.rels.iter().filter(|(_, x)| x.1 == hub).map(|(id, x)| (x.0, *id)).collect();
                outs.sort();
                ins.sort();
                Some(match r2.below(12) {
                    0..=3 if outs.len() >= 2 => Op::DeleteEdge(outs[r2.below(outs.len() as u64 - 1) as usize].1),
                    4..=5 if ins.len() >= 2 => Op::DeleteEdge(ins[r2.below(ins.len() as u64 - 1) as usize].1),
                    6..=8 if maxe < 14 => Op::CreateEdge(hub, r2.range(1, nn), r2.below(3)),
                    9 if maxe < 14 => Op::CreateEdge(r2.range(1, nn), hub, r2.below(3)),
                    10 if maxe < 14 => {
                        let other = if hub == 1 { 2 } else { 1 };
                        Op::CreateEdgeStub(other, r2.range(1, nn), r2.below(3))
                    }
                    11 => Op::Compact,
                    _ => Op::SetEdgeProp(r2.range(1, maxe + 1), r2.below(3), r2.range(1, 5)),
                })
            },
            |_, _| true,
            None,
        );
    }
    // ---- the order named by the property: compaction, delete, id reuse (always present) ----
    for t in 0..3u64 {
        let seq = vec![
            Op::CreateNode(vec![0]),
            Op::CreateNode(vec![1]),
            Op::CreateNode(vec![2]),
            Op::CreateEdgeP(1, 2, t, vec![(0, 3)]),
            Op::Compact,
            Op::DeleteEdge(1),
            Op::CreateEdge(3, 3, (t + 1) % 3),
            Op::CreateEdge(1, 3, t),
            Op::Compact,
            Op::CreateEdge(1, 2, t),
            Op::FinishBulk,
            Op::DeleteNode(1),
            Op::CreateNode(vec![t]),
            Op::CreateEdgeStub(1, 2, t),
        ];
        run_case(&mut out, |_, _, _, i| seq.get(i).cloned(), |_, _| true, None);
    }
    out.finish();
}
