//! C21 — the RESP decoder is safe on arbitrary bytes.
//!
//! Every case is one `RespValue::decode` call on a fresh buffer, run on a thread with a
//! 256 KiB stack, under catch_unwind, with a counting global allocator switched on for
//! the duration of the call.  Observed: outcome class, decoded value, the buffer
//! afterwards, bytes requested from the allocator.
mod resp_common;
use bytes::BytesMut;
use resp_common::*;
use samyama::protocol::resp::RespValue;
use std::alloc::{GlobalAlloc, Layout, System};
use std::cell::Cell;
use vh::*;

thread_local! {
    static ON: Cell<bool> = const { Cell::new(false) };
    static TOTAL: Cell<u64> = const { Cell::new(0) };
}

struct Counting;
unsafe impl GlobalAlloc for Counting {
    unsafe fn alloc(&self, l: Layout) -> *mut u8 {
        let _ = ON.try_with(|o| {
            if o.get() {
                let _ = TOTAL.try_with(|t| t.set(t.get() + l.size() as u64));
            }
        });
        System.alloc(l)
    }
    unsafe fn dealloc(&self, p: *mut u8, l: Layout) {
        System.dealloc(p, l)
    }
    unsafe fn realloc(&self, p: *mut u8, l: Layout, n: usize) -> *mut u8 {
        let _ = ON.try_with(|o| {
            if o.get() {
                let _ = TOTAL.try_with(|t| t.set(t.get() + n as u64));
            }
        });
        System.realloc(p, l, n)
    }
}
#[global_allocator]
static A: Counting = Counting;

/// decode with the allocation meter on; returns the observation and the bytes requested
fn measured(input: &[u8]) -> (Obs, u64) {
    let inp = input.to_vec();
    let res = catch(move || {
        let mut buf = BytesMut::from(&inp[..]);
        TOTAL.with(|t| t.set(0));
        ON.with(|o| o.set(true));
        let r = RespValue::decode(&mut buf);
        ON.with(|o| o.set(false));
        let a = TOTAL.with(|t| t.get());
        (r, buf.to_vec(), a)
    });
    ON.with(|o| o.set(false));
    match res {
        Err(m) => (Obs::Panic(m), TOTAL.with(|t| t.get())),
        Ok((r, rest, a)) => (classify(r, rest), a),
    }
}

struct Runner {
    out: Out,
    marker: std::path::PathBuf,
}

impl Runner {
    fn case(&mut self, input: &[u8], what: &str) {
        let idx = self.out.next_index();
        if !self.out.wants(idx) {
            self.out.skip();
            return;
        }
        if what != "exhaustive" {
            let shown = if input.len() > 200 { format!("{}... ({} bytes)", show(&input[..200]), input.len()) } else { show(input) };
            let _ = std::fs::write(&self.marker, format!("{}\t{} input=\"{}\"", idx, what, shown));
        }
        let (o, a) = measured(input);
        let human = format!("{} input=\"{}\" -> {} alloc={}", what, show(input), show_obs(&o), a);
        let g = format!("CDecode {} {} {}%Z", gb(input), g_obs(&o), a);
        let i = self.out.case(g, human.clone(), input.len() > 2);
        // the property's own predicate on the implementation
        let n = input.len() as u64;
        let mut bad: Option<String> = None;
        match &o {
            Obs::Panic(m) => bad = Some(format!("decoder panicked: {}", m)),
            Obs::Done(v, rest) => {
                self.out.count("outcome_value");
                if rest.len() + 3 > input.len() || !input.ends_with(rest) {
                    bad = Some("a decoded value must consume >= 3 bytes and leave a suffix of the input".into());
                } else if depth(v) > MAX_DEPTH + 1 {
                    bad = Some(format!("decoded value nested {} deep", depth(v)));
                }
            }
            Obs::More(_, rest) => {
                self.out.count("outcome_more");
                if rest != input {
                    bad = Some("decoder asked for more data but changed the buffer".into());
                }
            }
            Obs::Fail(c, rest) => {
                self.out.count(if *c == "EEnc" { "outcome_error_encoding" } else { "outcome_error_protocol" });
                if rest.len() + 2 > input.len() || !input.ends_with(rest) {
                    bad = Some("an error must drop >= 2 bytes and leave a suffix of the input".into());
                }
            }
        }
        if bad.is_none() && a > 96 * n + 256 {
            bad = Some(format!("allocated {} bytes for {} input bytes (bound 96*n+256 = {})", a, n, 96 * n + 256));
        }
        if a > 0 {
            self.out.count("allocating");
        }
        if let Some(b) = bad {
            self.out.fail(i, &human, &b, None);
        }
    }
}

/// The decoder under test may kill the whole process (stack overflow on deep nesting, a
/// failed giant allocation).  The cases therefore run in a child process that records which
/// case it is about to run; if the child dies the parent reports that case as the failure.
fn supervise(args: &Args) -> bool {
    if std::env::var("VERIF_C21_CHILD").is_ok() {
        return false;
    }
    let marker = args.out.join("current_case.txt");
    let _ = std::fs::remove_file(&marker);
    let exe = std::env::current_exe().expect("current_exe");
    let status = std::process::Command::new(exe)
        .args(std::env::args().skip(1))
        .env("VERIF_C21_CHILD", "1")
        .status()
        .expect("spawn child");
    if status.success() {
        return true;
    }
    let cur = std::fs::read_to_string(&marker).unwrap_or_default();
    let (idx, human) = match cur.split_once('\t') {
        Some((i, h)) => (i.parse::<u64>().unwrap_or(0), h.to_string()),
        None => (0, "unknown case (the child died before its first recorded case)".to_string()),
    };
    let j = serde_json::json!({
        "evaluations": idx + 1,
        "distinct_nontrivial": idx + 1,
        "rule": "run aborted: the decoder killed the process",
        "samples": [human.clone()],
        "distribution": {},
        "predicate_failures": [{
            "index": idx,
            "case": human,
            "detail": format!("the process died ({}) while decoding this input: a stack overflow or a failed \
                               allocation inside RespValue::decode takes the whole server down", status),
            "known_class": serde_json::Value::Null,
        }],
        "known": [],
        "shards": 0,
        "notes": ["child process died; cases after the failing one were not run"],
    });
    std::fs::write(args.out.join("summary.json"), serde_json::to_string_pretty(&j).unwrap()).expect("summary");
    true
}

fn main() {
    let args = parse_args();
    if supervise(&args) {
        return;
    }
    quiet_panics();
    let shard = if args.thorough { 6000 } else { 1500 };
    let out = Out::new(&args, "From Verif Require Import Resp.", "Resp.case", "Resp.check_case", shard);
    let args2 = args.clone();
    // small stack: unbounded recursion on nested arrays would overflow it
    let handle = std::thread::Builder::new()
        .stack_size(256 * 1024)
        .spawn(move || run(args2, out))
        .expect("spawn");
    handle.join().expect("harness thread");
}

fn run(args: Args, out: Out) {
    let mut rn = Runner { out, marker: args.out.join("current_case.txt") };
    rn.out.rule = "exhaustive: every byte string of length <= 4 (quick) / <= 5 (thorough) over the 14 symbols \
                   + - : $ * _ 0 1 9 CR LF a \" space; mutation: valid frames (values, commands, inline commands) \
                   with 1-3 byte-level mutations and hostile lengths (-2, 2^64-1, 2^63, 512 MiB +- 1, overlong \
                   digits, signs); adversarial: deep array nesting (up to 5000 levels), huge counts with few \
                   elements, long inline lines of one-byte tokens, invalid UTF-8. One decode call per case on a \
                   256 KiB stack under catch_unwind with a counting allocator. Non-trivial = input longer than 2 \
                   bytes; distinct by case text."
        .to_string();
    let max_len = if args.thorough { 5 } else { 4 };
    let n_mut = if args.thorough { 120_000 } else { 6_000 };

    // exhaustive short strings
    let mut cur: Vec<u8> = Vec::new();
    for len in 1..=max_len {
        let total = (ALPHABET.len() as u64).pow(len as u32);
        for mut k in 0..total {
            cur.clear();
            for _ in 0..len {
                cur.push(ALPHABET[(k % 14) as usize]);
                k /= 14;
            }
            rn.case(&cur.clone(), "exhaustive");
            rn.out.count("exhaustive");
        }
    }
    // adversarial fixed family
    let mut adv: Vec<(String, Vec<u8>)> = vec![
        ("neg-len".into(), b"$-2\r\n".to_vec()),
        ("neg-len".into(), b"$-9223372036854775808\r\nabc".to_vec()),
        ("huge-array".into(), b"*18446744073709551615\r\n".to_vec()),
        ("huge-array".into(), b"*18446744073709551615\r\n:1\r\n:2\r\n".to_vec()),
        ("huge-array".into(), b"*100000000\r\n$1\r\na\r\n".to_vec()),
        ("huge-array".into(), b"*9223372036854775807\r\n*9223372036854775807\r\n*9223372036854775807\r\n".to_vec()),
        ("huge-bulk".into(), b"$9223372036854775807\r\nab".to_vec()),
        ("huge-bulk".into(), b"$536870912\r\nab".to_vec()),
        ("huge-bulk".into(), b"$536870913\r\nab".to_vec()),
        ("huge-bulk".into(), b"$18446744073709551615\r\nab".to_vec()),
        ("bulk-no-crlf".into(), b"$3\r\nabcXY".to_vec()),
        ("bad-utf8".into(), b"+\xff\xfe\r\n".to_vec()),
        ("bad-utf8".into(), b"GET \xed\xa0\x80\r\n".to_vec()),
        ("bad-utf8".into(), b"*\xc3\r\n".to_vec()),
    ];
    for depth_n in [1usize, 31, 32, 33, 34, 64, 1000, 5000] {
        let mut b = Vec::new();
        for _ in 0..depth_n {
            b.extend_from_slice(b"*1\r\n");
        }
        adv.push((format!("nest-{}-open", depth_n), b.clone()));
        b.extend_from_slice(b":7\r\n");
        adv.push((format!("nest-{}", depth_n), b.clone()));
        let mut c = Vec::new();
        for _ in 0..depth_n {
            c.extend_from_slice(b"*2\r\n:1\r\n");
        }
        c.extend_from_slice(b"PING\r\n");
        adv.push((format!("nest2-{}", depth_n), c));
    }
    for n in [1usize, 3, 4, 5, 8, 9, 100, 1000] {
        let mut b = format!("*{}\r\n", n).into_bytes();
        for _ in 0..n {
            b.extend_from_slice(b"_\r\n");
        }
        adv.push((format!("many-{}", n), b.clone()));
        let mut c = format!("*{}\r\n", n).into_bytes();
        for _ in 0..n {
            c.extend_from_slice(b"a\r\n");
        }
        adv.push((format!("many-inline-{}", n), c));
        let mut d = Vec::new();
        for _ in 0..n {
            d.extend_from_slice(b"a ");
        }
        d.extend_from_slice(b"\r\n");
        adv.push((format!("inline-tokens-{}", n), d));
        let mut e = vec![b'"'];
        for _ in 0..n {
            e.extend_from_slice(b"\\n");
        }
        adv.push((format!("inline-unclosed-{}", n), [e.clone(), b"\r\n".to_vec()].concat()));
    }
    for (what, b) in &adv {
        rn.case(b, what);
        rn.out.count("adversarial");
    }
    // mutation fuzzing of valid frames
    for c in 0..n_mut {
        let mut r = Rng::for_case(args.seed, c);
        let base: Vec<u8> = match r.below(5) {
            0 => {
                let mut l = rand_inline(&mut r);
                l.extend_from_slice(b"\r\n");
                l
            }
            1 | 2 => impl_encode(&rand_command(&mut r)),
            _ => impl_encode(&rand_value(&mut r, 3, true)),
        };
        let m = mutate(&mut r, &base);
        rn.case(&m, "mutated");
        rn.out.count("mutated");
    }
    rn.out.finish();
}
