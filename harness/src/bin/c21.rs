use bytes::BytesMut;
use samyama::protocol::resp::RespValue;
use std::alloc::{GlobalAlloc, Layout, System};
use std::cell::Cell;
thread_local! { static ON: Cell<bool> = Cell::new(false); static TOTAL: Cell<u64> = Cell::new(0); static CUR: Cell<i64> = Cell::new(0); static PEAK: Cell<i64> = Cell::new(0);}
struct Counting;
unsafe impl GlobalAlloc for Counting {
    unsafe fn alloc(&self, l: Layout) -> *mut u8 {
        let _ = ON.try_with(|o| if o.get() { TOTAL.with(|t| t.set(t.get() + l.size() as u64)); CUR.with(|c| { c.set(c.get() + l.size() as i64); PEAK.with(|p| if c.get() > p.get() { p.set(c.get()) }) }); });
        System.alloc(l)
    }
    unsafe fn dealloc(&self, p: *mut u8, l: Layout) {
        let _ = ON.try_with(|o| if o.get() { CUR.with(|c| c.set(c.get() - l.size() as i64)); });
        System.dealloc(p, l)
    }
    unsafe fn realloc(&self, p: *mut u8, l: Layout, n: usize) -> *mut u8 {
        let _ = ON.try_with(|o| if o.get() { TOTAL.with(|t| t.set(t.get() + n as u64)); CUR.with(|c| { c.set(c.get() + n as i64 - l.size() as i64); PEAK.with(|p| if c.get() > p.get() { p.set(c.get()) }) }); });
        System.realloc(p, l, n)
    }
}
#[global_allocator]
static A: Counting = Counting;
fn measure(b: &[u8]) -> (u64, i64, String) {
    let mut buf = BytesMut::from(b);
    TOTAL.with(|t| t.set(0)); CUR.with(|t| t.set(0)); PEAK.with(|t| t.set(0));
    ON.with(|o| o.set(true));
    let r = RespValue::decode(&mut buf);
    ON.with(|o| o.set(false));
    let s = match &r { Ok(Some(_)) => "done".to_string(), Ok(None) => "none".into(), Err(e) => format!("err {}", e) };
    drop(r);
    (TOTAL.with(|t| t.get()), PEAK.with(|t| t.get()), s)
}
fn main() {
    println!("sizeof RespValue {}", std::mem::size_of::<RespValue>());
    let mut cases: Vec<Vec<u8>> = vec![
        b"+OK\r\n".to_vec(), b":12\r\n".to_vec(), b":x\r\n".to_vec(), b"$-2\r\n".to_vec(), b"$3\r\nabc\r\n".to_vec(), b"$3\r\nabcde".to_vec(),
        b"*1\r\n_\r\n".to_vec(), b"*5\r\n_\r\n_\r\n_\r\n_\r\n_\r\n".to_vec(), b"*18446744073709551615\r\n".to_vec(), b"+\xff\r\n".to_vec(),
        b"a\r\n".to_vec(), b"a b\r\n".to_vec(), b"a b c d e f g h\r\n".to_vec(), b"\"abc\r\n".to_vec(), b"\r\n".to_vec(), b"*99999999999999999999\r\n".to_vec(), b"$99999999999999999999\r\n".to_vec(),
        b"$536870913\r\n".to_vec(),
    ];
    let mut deep = Vec::new(); for _ in 0..40 { deep.extend_from_slice(b"*1\r\n"); } cases.push(deep);
    let mut many = b"*1000\r\n".to_vec(); for _ in 0..1000 { many.extend_from_slice(b"_\r\n"); } cases.push(many);
    let mut inl = Vec::new(); for _ in 0..1000 { inl.extend_from_slice(b"a "); } inl.extend_from_slice(b"\r\n"); cases.push(inl);
    let mut inl2 = Vec::new(); for _ in 0..1000 { inl2.extend_from_slice(b"a"); } inl2.extend_from_slice(b"\r\n"); cases.push(inl2);
    let mut inl3 = Vec::new(); for _ in 0..100 { inl3.extend_from_slice(b"abcdefghi "); } inl3.extend_from_slice(b"\r\n"); cases.push(inl3);
    for c in &cases {
        let (t, p, s) = measure(c);
        println!("{:>6} bytes: total {:>8} peak {:>8} ratio {:.1}  {}  {:?}", c.len(), t, p, t as f64 / c.len() as f64, s, String::from_utf8_lossy(&c[..c.len().min(30)]));
    }
}
