//! C36 — RDF serializations (N-Triples, Turtle, RDF/XML) round-trip every triple set.
//!
//! Per case: a triple set from a boundary generator is serialized with the three repo
//! serializers and parsed back with the repo parsers. The case (triples, the three texts, the
//! three parse results, constructor observations) goes to Coq (`Rdf.check_case`), and the
//! property's own predicate — same set of triples up to blank-node renaming — is evaluated here.
use samyama::rdf::{
    BlankNode, Literal, NamedNode, RdfFormat, RdfObject, RdfParser, RdfPredicate, RdfSerializer, RdfSubject, Triple,
};
use std::collections::{BTreeMap, BTreeSet};
use vh::*;

const XSD_STRING: &str = "http://www.w3.org/2001/XMLSchema#string";
const RDF_NS: &str = "http://www.w3.org/1999/02/22-rdf-syntax-ns#";

// ---------- model-side view of a triple ----------
#[derive(Clone, Debug, PartialEq, Eq, PartialOrd, Ord)]
enum MS {
    Iri(String),
    Blank(String),
}
#[derive(Clone, Debug, PartialEq, Eq, PartialOrd, Ord)]
enum MO {
    Iri(String),
    Blank(String),
    Str(String),
    Lang(String, String),
    Typed(String, String),
}
type MT = (MS, String, MO);

fn abs(t: &Triple) -> MT {
    let s = match &t.subject {
        RdfSubject::NamedNode(n) => MS::Iri(n.as_str().to_string()),
        RdfSubject::BlankNode(b) => MS::Blank(b.as_str().to_string()),
    };
    let p = t.predicate.as_named_node().as_str().to_string();
    let o = match &t.object {
        RdfObject::NamedNode(n) => MO::Iri(n.as_str().to_string()),
        RdfObject::BlankNode(b) => MO::Blank(b.as_str().to_string()),
        RdfObject::Literal(l) => {
            if let Some(lang) = l.language() {
                MO::Lang(l.value().to_string(), lang.to_string())
            } else if l.datatype().as_str() == XSD_STRING {
                MO::Str(l.value().to_string())
            } else {
                MO::Typed(l.value().to_string(), l.datatype().as_str().to_string())
            }
        }
    };
    (s, p, o)
}

fn g_str(s: &str) -> String {
    g_list(s.chars().map(|c| format!("{}", c as u32)))
}
fn g_triple(t: &MT) -> String {
    let s = match &t.0 {
        MS::Iri(i) => format!("SIri {}", g_str(i)),
        MS::Blank(b) => format!("SBlank {}", g_str(b)),
    };
    let o = match &t.2 {
        MO::Iri(i) => format!("ROIri {}", g_str(i)),
        MO::Blank(b) => format!("ROBlank {}", g_str(b)),
        MO::Str(v) => format!("ROLit (RString {})", g_str(v)),
        MO::Lang(v, l) => format!("ROLit (RLang {} {})", g_str(v), g_str(l)),
        MO::Typed(v, d) => format!("ROLit (RTyped {} {})", g_str(v), g_str(d)),
    };
    format!("({}, {}, {})", s, g_str(&t.1), o)
}
fn g_triples(ts: &[MT]) -> String {
    g_list(ts.iter().map(g_triple))
}

// ---------- the property's predicate: equal as sets up to a renaming of blank nodes ----------
fn labels(ts: &BTreeSet<MT>) -> Vec<String> {
    let mut s = BTreeSet::new();
    for t in ts {
        if let MS::Blank(b) = &t.0 {
            s.insert(b.clone());
        }
        if let MO::Blank(b) = &t.2 {
            s.insert(b.clone());
        }
    }
    s.into_iter().collect()
}
fn rename(ts: &BTreeSet<MT>, m: &BTreeMap<String, String>) -> BTreeSet<MT> {
    ts.iter()
        .map(|t| {
            let s = match &t.0 {
                MS::Blank(b) => MS::Blank(m[b].clone()),
                x => x.clone(),
            };
            let o = match &t.2 {
                MO::Blank(b) => MO::Blank(m[b].clone()),
                x => x.clone(),
            };
            (s, t.1.clone(), o)
        })
        .collect()
}
fn permute(k: usize, idx: &mut Vec<usize>, used: &mut Vec<bool>, f: &mut dyn FnMut(&[usize]) -> bool) -> bool {
    if idx.len() == k {
        return f(idx);
    }
    for i in 0..k {
        if !used[i] {
            used[i] = true;
            idx.push(i);
            if permute(k, idx, used, f) {
                return true;
            }
            idx.pop();
            used[i] = false;
        }
    }
    false
}
fn iso(a: &[MT], b: &[MT]) -> bool {
    let sa: BTreeSet<MT> = a.iter().cloned().collect();
    let sb: BTreeSet<MT> = b.iter().cloned().collect();
    if sa == sb {
        return true;
    }
    let (la, lb) = (labels(&sa), labels(&sb));
    if la.len() != lb.len() || sa.len() != sb.len() || la.len() > 7 {
        return false;
    }
    let k = la.len();
    permute(k, &mut Vec::new(), &mut vec![false; k], &mut |p| {
        let m: BTreeMap<String, String> = (0..k).map(|i| (la[i].clone(), lb[p[i]].clone())).collect();
        rename(&sa, &m) == sb
    })
}

// ---------- Rust-side classification of the known classes (independent of the model) ----------
fn is_name_start(c: char) -> bool {
    matches!(c, ':' | 'A'..='Z' | '_' | 'a'..='z' | '\u{C0}'..='\u{D6}' | '\u{D8}'..='\u{F6}' | '\u{F8}'..='\u{2FF}'
        | '\u{370}'..='\u{37D}' | '\u{37F}'..='\u{1FFF}' | '\u{200C}'..='\u{200D}' | '\u{2070}'..='\u{218F}'
        | '\u{2C00}'..='\u{2FEF}' | '\u{3001}'..='\u{D7FF}' | '\u{F900}'..='\u{FDCF}' | '\u{FDF0}'..='\u{FFFD}'
        | '\u{10000}'..='\u{EFFFF}')
}
fn is_name_char(c: char) -> bool {
    is_name_start(c) || matches!(c, '-' | '.' | '0'..='9' | '\u{B7}' | '\u{0300}'..='\u{036F}' | '\u{203F}'..='\u{2040}')
}
fn ncname(s: &str) -> bool {
    let mut it = s.chars();
    match it.next() {
        Some(c) if is_name_start(c) => {}
        _ => return false,
    }
    it.all(is_name_char) && !s.contains(':')
}
fn blank_labels(ts: &[MT]) -> Vec<&str> {
    let mut v = Vec::new();
    for t in ts {
        if let MS::Blank(b) = &t.0 {
            v.push(b.as_str());
        }
        if let MO::Blank(b) = &t.2 {
            v.push(b.as_str());
        }
    }
    v
}
const RESERVED: [&str; 12] = [
    "about", "aboutEach", "aboutEachPrefix", "bagID", "datatype", "ID", "li", "nodeID", "parseType", "RDF", "resource",
    "Description",
];
fn class_text(ts: &[MT]) -> Option<&'static str> {
    if blank_labels(ts).iter().any(|b| b.contains(':') || b.contains("..")) {
        Some("bnode-label-unreadable")
    } else {
        None
    }
}
fn class_xml(ts: &[MT]) -> Option<&'static str> {
    if blank_labels(ts).iter().any(|b| !ncname(b)) {
        return Some("xml-nodeid-not-ncname");
    }
    let ws = |v: &str| !v.is_empty() && v.chars().all(|c| matches!(c, ' ' | '\t' | '\n' | '\r'));
    if ts.iter().any(|t| match &t.2 {
        MO::Str(v) | MO::Lang(v, _) | MO::Typed(v, _) => ws(v),
        _ => false,
    }) {
        return Some("xml-whitespace-only-literal");
    }
    if ts.iter().any(|t| t.1.strip_prefix(RDF_NS).map_or(false, |l| RESERVED.contains(&l))) {
        return Some("xml-reserved-rdf-predicate");
    }
    if ts.iter().any(|t| t.1 == "http://www.w3.org/2000/xmlns/") {
        return Some("xml-xmlns-namespace-predicate");
    }
    None
}

// ---------- generator ----------
const NS: [&str; 11] = [
    "http://www.w3.org/XML/1998/namespace#",
    "http://www.w3.org/XML/1998/namespace",
    "http://www.w3.org/2000/xmlns/",
    "http://e/",
    "http://example.org/ns#",
    "urn:x:",
    "http://e/a/b?q=1&r='2'&n=",
    "http://e/p#frag/",
    RDF_NS,
    "http://www.w3.org/2000/01/rdf-schema#",
    "HTTP://E.org:80/%7Eu/",
];
const LOCAL: [&str; 22] = [
    "", "p", "name", "knows", "123", "1a", "a.b", "\u{e9}t\u{e9}", "\u{1F600}x", "a-b", "x_y", "a%20b", "~t", "a:b", "a'b",
    "(x)", "-a", ".a", "\u{b7}a", "a.", "x/", "y#",
];
const RDF_LOCAL: [&str; 20] = [
    "type", "li", "_1", "_12", "about", "Description", "resource", "ID", "nodeID", "value", "first", "rest", "RDF",
    "datatype", "parseType", "bagID", "aboutEach", "aboutEachPrefix", "subject", "Statement",
];
const BAD_IRI: [&str; 16] = [
    "http://e/a b", "http://e/a>b", "http://e/a<b", "http://e/a\"b", "http://e/{x}", "http://e/a|b", "http://e/a^b",
    "http://e/a`b", "http://e/a\\b", "http://e/a\nb", "http://e/\u{1}", "rel", "", "http://e/%zz", "http://e/\u{e000}",
    "//e/x",
];
/// made with oxrdf's NamedNode::new_unchecked: each has a character IRIREF cannot carry
const UNCHECKED_IRI: [&str; 14] = [
    "http://e/a b", "http://e/a>b", "http://e/a<b", "http://e/a\"b", "http://e/{x}", "http://e/a|b", "http://e/a^b",
    "http://e/a`b", "http://e/a\\b", "http://e/a\nb", "http://e/\u{1}", "http://e/\\u0041", "http://e/x> <http://e/y",
    "http://e/a\tb",
];
const LABELS: [&str; 30] = [
    "b", "b1", "x", "node", "1", "0a", "42", "a1f", "a.b", "a..b", "a.b.c", "a:b", ":x", "x:", "_x", "a-b", "\u{e9}",
    "a\u{b7}", "\u{1F600}", "x.", ".x", "", "a b", "-a", "a\u{300}", "\u{300}a", "a.-b", "a.:b", "A_B-9", "b\u{203f}c",
];
const LANGS: [&str; 18] = [
    "en", "EN", "en-US", "De-1996", "x-private", "zh-Hant-TW", "i-klingon", "fr-ca", "sl-rozaj-biske", "", "e n", "123",
    "en-", "-en", "abcdefghi", "en--us", "a-b-c-d", "en_US",
];
const DTYPES: [&str; 9] = [
    XSD_STRING,
    "http://www.w3.org/2001/XMLSchema#integer",
    "http://e/dt#",
    "http://e/dt/",
    "http://www.w3.org/1999/02/22-rdf-syntax-ns#langString",
    "http://www.w3.org/1999/02/22-rdf-syntax-ns#XMLLiteral",
    "http://www.w3.org/2001/XMLSchema#String",
    "urn:dt",
    "http://e/a&b='c'",
];
const CHARS: [char; 44] = [
    '"', '\\', '\n', '\r', '\t', ' ', '\u{0}', '\u{1}', '\u{8}', '\u{b}', '\u{c}', '\u{1b}', '\u{1f}', '\u{7f}', '\u{85}',
    '\u{a0}', '\u{2028}', '\u{feff}', '\u{fffd}', '\u{fffe}', '\u{ffff}', '\u{1F600}', '\u{10FFFF}', '\u{e000}',
    '\u{d7ff}', '<', '>', '&', '\'', ']', ';', '#', '@', '^', '.', 'a', 'b', 'Z', '0', '\u{e9}', '\u{4e2d}', 'u', 'n', '_',
];
const SNIPPETS: [&str; 12] =
    ["", " ", "\n", "\r\n", " \t ", "]]>", "&amp;", "&#10;", "\\n", "\\u0041", "\"\"\"", "<!-- x -->"];

struct Gen {
    r: Rng,
    boundary: bool,
}
impl Gen {
    fn iri(&mut self) -> String {
        let ns = *self.r.pick(&NS);
        let local = if ns == RDF_NS {
            if self.boundary && self.r.chance(1, 2) {
                *self.r.pick(&RDF_LOCAL)
            } else {
                *self.r.pick(&["type", "value", "_1", "first", "subject"])
            }
        } else {
            *self.r.pick(&LOCAL)
        };
        format!("{}{}", ns, local)
    }
    fn label(&mut self) -> String {
        if self.boundary {
            self.r.pick(&LABELS).to_string()
        } else {
            self.r.pick(&["b", "b1", "x", "node", "a.b", "_x", "a-b", "\u{e9}", "a1f", "A_B-9", "a.b.c"]).to_string()
        }
    }
    fn value(&mut self) -> String {
        match self.r.below(10) {
            0 => String::new(),
            1 => {
                let s = self.r.pick(&SNIPPETS).to_string();
                if !self.boundary && !s.is_empty() && s.chars().all(|c| " \t\r\n".contains(c)) {
                    format!("{}a", s)
                } else {
                    s
                }
            }
            _ => {
                let n = self.r.range(1, 8);
                let mut s: String = (0..n).map(|_| *self.r.pick(&CHARS)).collect();
                if !self.boundary && s.chars().all(|c| " \t\r\n".contains(c)) {
                    s.push('z');
                }
                s
            }
        }
    }
}

fn run_case(out: &mut Out, seed: u64, c: u64) {
    let idx = out.next_index();
    if !out.wants(idx) {
        out.skip();
        return;
    }
    let mut r = Rng::for_case(seed, c);
    let boundary = r.chance(2, 5);
    let mut g = Gen { r, boundary };

    // constructor observations: both sides of the well-formedness predicates
    let mut iris: Vec<(String, bool)> = Vec::new();
    let mut labs: Vec<(String, bool)> = Vec::new();
    let mut langs: Vec<(String, Option<String>)> = Vec::new();
    for _ in 0..2 {
        let cand = if g.r.chance(1, 2) { g.r.pick(&BAD_IRI).to_string() } else { g.iri() };
        let ok = NamedNode::new(&cand).is_ok();
        out.count(if ok { "iri_accepted" } else { "iri_rejected" });
        iris.push((cand, ok));
        let cand = g.r.pick(&LABELS).to_string();
        let ok = BlankNode::from_str(&cand).is_ok();
        out.count(if ok { "label_accepted" } else { "label_rejected" });
        labs.push((cand, ok));
        let cand = g.r.pick(&LANGS).to_string();
        let st = Literal::new_language_tagged_literal("v", cand.clone()).ok().map(|l| l.language().unwrap().to_string());
        out.count(if st.is_some() { "lang_accepted" } else { "lang_rejected" });
        langs.push((cand, st));
    }

    // the triple set: small pools so that subjects/predicates repeat and blank nodes are shared
    let n = match g.r.below(12) {
        0 => 0,
        1 => 1,
        _ => g.r.range(2, 7),
    } as usize;
    let mut subj_pool: Vec<RdfSubject> = Vec::new();
    while subj_pool.len() < 3 {
        if g.r.chance(1, 3) {
            if let Ok(b) = BlankNode::from_str(&g.label()) {
                subj_pool.push(b.into());
            }
        } else if let Ok(nn) = NamedNode::new(&g.iri()) {
            subj_pool.push(nn.into());
        }
    }
    let mut pred_pool: Vec<RdfPredicate> = Vec::new();
    while pred_pool.len() < 3 {
        if let Ok(p) = RdfPredicate::new(&g.iri()) {
            pred_pool.push(p);
        }
    }
    let mut triples: Vec<Triple> = Vec::new();
    while triples.len() < n {
        let s = if g.r.chance(1, 2) && !triples.is_empty() {
            triples[triples.len() - 1].subject.clone()
        } else {
            g.r.pick(&subj_pool).clone()
        };
        let p = if g.r.chance(1, 2) && !triples.is_empty() {
            triples[triples.len() - 1].predicate.clone()
        } else {
            g.r.pick(&pred_pool).clone()
        };
        let o: RdfObject = match g.r.below(10) {
            0 | 1 => match NamedNode::new(&g.iri()) {
                Ok(nn) => nn.into(),
                Err(_) => continue,
            },
            2 => match g.r.pick(&subj_pool) {
                RdfSubject::NamedNode(nn) => nn.clone().into(),
                RdfSubject::BlankNode(b) => b.clone().into(),
            },
            3 => match BlankNode::from_str(&g.label()) {
                Ok(b) => b.into(),
                Err(_) => continue,
            },
            4 | 5 | 6 => Literal::new_simple_literal(g.value()).into(),
            7 | 8 => {
                let tag = if g.boundary {
                    g.r.pick(&LANGS).to_string()
                } else {
                    g.r.pick(&["en", "EN", "en-US", "De-1996", "fr-ca"]).to_string()
                };
                match Literal::new_language_tagged_literal(g.value(), tag) {
                    Ok(l) => l.into(),
                    Err(_) => continue,
                }
            }
            _ => {
                let dt = if g.r.chance(1, 4) { g.iri() } else { g.r.pick(&DTYPES).to_string() };
                match NamedNode::new(&dt) {
                    Ok(d) => Literal::new_typed_literal(g.value(), d).into(),
                    Err(_) => continue,
                }
            }
        };
        triples.push(Triple::new(s, p, o));
    }
    // the other side of the IRI predicate: one IRI that no validating constructor would accept
    let unchecked = !triples.is_empty() && g.r.chance(1, 10);
    if unchecked {
        let bad: NamedNode = oxrdf::NamedNode::new_unchecked(*g.r.pick(&UNCHECKED_IRI)).into();
        let k = g.r.below(triples.len() as u64) as usize;
        let t = triples[k].clone();
        triples[k] = match g.r.below(4) {
            0 => Triple::new(bad.into(), t.predicate, t.object),
            1 => Triple::new(t.subject, RdfPredicate::from(bad), t.object),
            2 => Triple::new(t.subject, t.predicate, bad.into()),
            _ => Triple::new(t.subject, t.predicate, Literal::new_typed_literal(g.value(), bad).into()),
        };
    }
    let ts: Vec<MT> = triples.iter().map(abs).collect();

    // implementation: serialize and parse back, per format
    let mut texts: Vec<String> = Vec::new();
    let mut backs: Vec<Option<Vec<MT>>> = Vec::new();
    let mut errs: Vec<String> = Vec::new();
    for f in [RdfFormat::NTriples, RdfFormat::Turtle, RdfFormat::RdfXml] {
        let text = match catch(std::panic::AssertUnwindSafe(|| RdfSerializer::serialize(&triples, f))) {
            Ok(Ok(s)) => s,
            Ok(Err(e)) => format!("\u{0}SERIALIZE-ERROR {}", e),
            Err(p) => format!("\u{0}SERIALIZE-PANIC {}", p),
        };
        let back = match catch(std::panic::AssertUnwindSafe(|| RdfParser::parse(&text, f))) {
            Ok(Ok(v)) => {
                errs.push(String::new());
                Some(v.iter().map(abs).collect::<Vec<MT>>())
            }
            Ok(Err(e)) => {
                errs.push(e.to_string());
                None
            }
            Err(p) => {
                errs.push(format!("panic: {}", p));
                None
            }
        };
        texts.push(text);
        backs.push(back);
    }

    // generator health
    out.count_n("triples", ts.len() as u64);
    let lits: Vec<&str> = ts
        .iter()
        .filter_map(|t| match &t.2 {
            MO::Str(v) | MO::Lang(v, _) | MO::Typed(v, _) => Some(v.as_str()),
            _ => None,
        })
        .collect();
    if lits.iter().any(|v| v.contains('"') || v.contains('\\')) {
        out.count("lit_quote_or_backslash");
    }
    if lits.iter().any(|v| v.contains('\n') || v.contains('\r')) {
        out.count("lit_newline_or_cr");
    }
    if lits.iter().any(|v| v.chars().any(|c| (c as u32) < 0x20 && !"\t\n\r".contains(c))) {
        out.count("lit_c0_control");
    }
    if lits.iter().any(|v| v.chars().any(|c| (c as u32) >= 0x10000)) {
        out.count("lit_astral");
    }
    if lits.iter().any(|v| v.is_empty()) {
        out.count("lit_empty");
    }
    if ts.iter().any(|t| matches!(&t.2, MO::Lang(..))) {
        out.count("lit_lang");
    }
    if ts.iter().any(|t| matches!(&t.2, MO::Typed(..))) {
        out.count("lit_custom_datatype");
    }
    if triples.iter().any(|t| match &t.object {
        RdfObject::Literal(l) => l.language().is_none() && l.datatype().as_str() == XSD_STRING,
        _ => false,
    }) {
        out.count("lit_xsd_string");
    }
    {
        let bl = blank_labels(&ts);
        let distinct: BTreeSet<&str> = bl.iter().cloned().collect();
        if bl.len() > distinct.len() {
            out.count("blank_shared");
        }
    }
    if ts.iter().any(|t| t.1.ends_with('/') || t.1.ends_with('#')) {
        out.count("pred_without_local_name");
    }
    if ts.windows(2).any(|w| w[0].0 == w[1].0 && w[0].1 == w[1].1) {
        out.count("ttl_object_list");
    }
    if ts.windows(2).any(|w| w[0].0 == w[1].0 && w[0].1 != w[1].1) {
        out.count("ttl_predicate_list");
    }
    let ct = class_text(&ts);
    let cx = class_xml(&ts);
    if unchecked {
        out.count("illformed_iri_case");
    } else if ct.is_none() && cx.is_none() {
        out.count("outside_known_classes");
    }

    let human = format!(
        "triples={:?} nt={:?} ttl={:?} xml={:?} errs={:?}",
        triples.iter().map(|t| t.to_string()).collect::<Vec<_>>(),
        texts[0],
        texts[1],
        texts[2],
        errs
    );
    // ASCII only: Out::case truncates the sample text at a byte offset
    let human: String =
        human.chars().map(|c| if c.is_ascii() { c.to_string() } else { format!("\\u{{{:x}}}", c as u32) }).collect();
    let g_back = |b: &Option<Vec<MT>>| g_opt(b.as_ref().map(|v| g_triples(v)));
    let gal = format!(
        "(Build_case {} {} {} {} {} {} {} {} {} {} {})",
        g_bool(!unchecked),
        g_triples(&ts),
        g_str(&texts[0]),
        g_str(&texts[1]),
        g_str(&texts[2]),
        g_back(&backs[0]),
        g_back(&backs[1]),
        g_back(&backs[2]),
        g_list(iris.iter().map(|(s, b)| format!("({}, {})", g_str(s), g_bool(*b)))),
        g_list(labs.iter().map(|(s, b)| format!("({}, {})", g_str(s), g_bool(*b)))),
        g_list(langs.iter().map(|(s, o)| format!("({}, {})", g_str(s), g_opt(o.as_ref().map(|l| g_str(l)))))),
    );
    let i = out.case(gal, human.clone(), !ts.is_empty());

    // the property, per format
    let names = ["N-Triples", "Turtle", "RDF/XML"];
    for k in 0..3 {
        let ok = backs[k].as_ref().map_or(false, |b| iso(&ts, b));
        if unchecked {
            // not a triple set in the sense of the property (the IRI is not an IRI); observed only
            out.count(if ok { "illformed_iri_roundtrip_ok" } else { "illformed_iri_roundtrip_fails" });
            continue;
        }
        if ok {
            out.count(["nt_roundtrip_ok", "ttl_roundtrip_ok", "xml_roundtrip_ok"][k]);
            continue;
        }
        let class = if k < 2 { ct } else { cx };
        if let Some(cn) = class {
            out.count(&format!("known:{}", cn));
        }
        let detail = match &backs[k] {
            Some(b) => format!("{} round trip changed the triple set: wrote {:?}, read back {:?}", names[k], ts, b),
            None => format!("{} output does not parse back: {} (text {:?})", names[k], errs[k], texts[k]),
        };
        out.fail(i, &human, &detail, class);
    }
}

/// Replay of the stored witness of one known class.
fn replay(out: &mut Out, class: &str, formats: &[RdfFormat], triples: Vec<Triple>) {
    let ts: Vec<MT> = triples.iter().map(abs).collect();
    let mut still = false;
    let mut detail = String::new();
    for f in formats {
        let text = RdfSerializer::serialize(&triples, *f).unwrap_or_else(|e| format!("\u{0}{}", e));
        match RdfParser::parse(&text, *f) {
            Ok(v) => {
                let b: Vec<MT> = v.iter().map(abs).collect();
                if !iso(&ts, &b) {
                    still = true;
                    detail.push_str(&format!("{:?}: {:?} read back as {:?}; ", f, text, v.iter().map(|t| t.to_string()).collect::<Vec<_>>()));
                }
            }
            Err(e) => {
                still = true;
                detail.push_str(&format!("{:?}: {:?} -> {}; ", f, text, e));
            }
        }
    }
    out.known.push(KnownReplay { class: class.to_string(), still_fails: still, detail });
}

fn main() {
    let args = parse_args();
    quiet_panics();
    let mut out = Out::new(&args, "From Verif Require Import Rdf.", "Rdf.case", "Rdf.check_case", 40);
    out.rule = "random triple sets of 0..7 triples over small subject/predicate pools (so Turtle object lists, predicate \
                lists and rdf:Description groups occur), terms built with the validating constructors from boundary \
                pools: IRIs over 8 namespaces x 22 local names (empty local name, leading digit, non-ASCII, astral, rdf: \
                reserved names, the xml and xmlns namespaces), blank-node labels (digits, dots, colons, non-ASCII; shared between triples), literal \
                values over quotes, backslash, LF, CR, tab, C0 controls, DEL, NEL, U+2028, noncharacters, astral and \
                private-use characters, XML metacharacters, empty and whitespace-only strings; language tags of both \
                cases; xsd:string, custom and rdf: datatypes. 2/5 of the cases draw from the full boundary pools (known \
                classes included), the rest avoid the ingredients of the known classes; 1/10 of the cases get one IRI \
                made with oxrdf's new_unchecked that contains a character IRIREF cannot carry (outside the property's \
                domain: only observed, must not come back unchanged). Each case also offers \
                candidate IRIs, labels and language tags (valid and invalid) to the constructors. Non-trivial = \
                non-empty set; distinct by case text."
        .to_string();
    let n = if args.thorough { 12000 } else { 640 };
    for c in 0..n {
        run_case(&mut out, args.seed, c);
    }

    // known findings: stored witnesses, replayed on the implementation every run
    let s = || -> RdfSubject { NamedNode::new("http://e/s").unwrap().into() };
    let p = |i: &str| RdfPredicate::new(i).unwrap();
    let b = |l: &str| BlankNode::from_str(l).unwrap();
    replay(
        &mut out,
        "bnode-label-unreadable",
        &[RdfFormat::NTriples, RdfFormat::Turtle],
        vec![Triple::new(b("a:b").into(), p("http://e/p"), b("c..d").into())],
    );
    replay(&mut out, "xml-nodeid-not-ncname", &[RdfFormat::RdfXml], vec![Triple::new(s(), p("http://e/p"), b("1").into())]);
    replay(
        &mut out,
        "xml-whitespace-only-literal",
        &[RdfFormat::RdfXml],
        vec![Triple::new(s(), p("http://e/p"), Literal::new_simple_literal(" ").into())],
    );
    replay(
        &mut out,
        "xml-reserved-rdf-predicate",
        &[RdfFormat::RdfXml],
        vec![Triple::new(s(), p("http://www.w3.org/1999/02/22-rdf-syntax-ns#li"), Literal::new_simple_literal("x").into())],
    );
    replay(
        &mut out,
        "xml-xmlns-namespace-predicate",
        &[RdfFormat::RdfXml],
        vec![Triple::new(s(), p("http://www.w3.org/2000/xmlns/"), Literal::new_simple_literal("x").into())],
    );
    out.finish();
}
