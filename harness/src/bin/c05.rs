//! C05 — a write statement that fails changes nothing.
//!
//! Multi-row write statements with a failure planted at every row position (zero divisor, bad
//! operand, unbound variable, duplicate constrained value, constrained SET / label) are run through
//! `QueryEngine::execute_mut` on small random graphs with unique constraints and indexes. The whole
//! store (nodes, labels, properties, relationships, constraint and index lists, index lookups) is
//! dumped before and after. Property: a statement that returns Err leaves the dump unchanged. A
//! changed dump is a predicate failure; it belongs to a known class only when the statement's shape
//! and the planted position say that a mutation precedes the failing item (decided without looking
//! at the dump). The same case is replayed by coq/model/StreamExec.v, which must predict the error
//! class, the class and the exact post-state.
use samyama::graph::{GraphStore, PropertyValue};
use samyama::query::QueryEngine;
use std::collections::BTreeSet;
use vh::*;

const LABELS: [&str; 3] = ["", "L", "M"];
const KEYS: [&str; 5] = ["", "k", "p", "q", "w"];

#[derive(Clone, Debug, PartialEq)]
enum V {
    I(i64),
    S(u64),
}
fn s_name(c: u64) -> String {
    ((b'a' + (c as u8 - 1)) as char).to_string()
}
impl V {
    fn lit(&self) -> String {
        match self {
            V::I(i) => format!("{}", i),
            V::S(c) => format!("'{}'", s_name(*c)),
        }
    }
    fn g(&self) -> String {
        match self {
            V::I(i) => format!("(VInt {})", g_z(*i as i128)),
            V::S(c) => format!("(VStr {})", c),
        }
    }
}

#[derive(Clone, Debug)]
enum E {
    X,
    Const(V),
    DivBy(i64),
    ModBy(i64),
    MulC(i64),
    SubC(i64),
    Neg,
    Prop(u64),
    DivByProp(i64, u64),
    Unbound,
}
impl E {
    fn cy(&self, var: &str) -> String {
        match self {
            E::X => "x".into(),
            E::Const(v) => v.lit(),
            E::DivBy(c) => format!("{} / x", c),
            E::ModBy(c) => format!("{} % x", c),
            E::MulC(c) => format!("x * {}", c),
            E::SubC(c) => format!("x - {}", c),
            E::Neg => "-x".into(),
            E::Prop(k) => format!("{}.{}", var, KEYS[*k as usize]),
            E::DivByProp(c, k) => format!("{} / {}.{}", c, var, KEYS[*k as usize]),
            E::Unbound => "zz".into(),
        }
    }
    fn g(&self) -> String {
        match self {
            E::X => "PX".into(),
            E::Const(v) => format!("(PConst {})", v.g()),
            E::DivBy(c) => format!("(PDivBy {})", g_z(*c as i128)),
            E::ModBy(c) => format!("(PModBy {})", g_z(*c as i128)),
            E::MulC(c) => format!("(PMulC {})", g_z(*c as i128)),
            E::SubC(c) => format!("(PSubC {})", g_z(*c as i128)),
            E::Neg => "PNeg".into(),
            E::Prop(k) => format!("(PProp {})", k),
            E::DivByProp(c, k) => format!("(PDivByProp {} {})", g_z(*c as i128), k),
            E::Unbound => "PUnbound".into(),
        }
    }
}

fn labels_cy(ls: &[u64]) -> String {
    ls.iter().map(|l| format!(":{}", LABELS[*l as usize])).collect()
}
fn g_nlist(v: &[u64]) -> String {
    g_list(v.iter().map(|x| x.to_string()))
}
fn props_cy(ps: &[(u64, E)], var: &str) -> String {
    if ps.is_empty() {
        return String::new();
    }
    format!(" {{{}}}", ps.iter().map(|(k, e)| format!("{}: {}", KEYS[*k as usize], e.cy(var))).collect::<Vec<_>>().join(", "))
}
fn g_props(ps: &[(u64, E)]) -> String {
    g_list(ps.iter().map(|(k, e)| format!("({}, {})", k, e.g())))
}
fn g_vals(xs: &[V]) -> String {
    g_list(xs.iter().map(|v| v.g()))
}
fn vals_cy(xs: &[V]) -> String {
    format!("[{}]", xs.iter().map(|v| v.lit()).collect::<Vec<_>>().join(", "))
}

// ---------- dump ----------
#[derive(Clone, Debug, PartialEq)]
struct NodeD {
    id: u64,
    labels: Vec<u64>,
    props: Vec<(u64, V)>,
}
#[derive(Clone, Debug, PartialEq)]
struct EdgeD {
    src: u64,
    dst: u64,
    ty: String,
    props: Vec<(u64, V)>,
}
#[derive(Clone, Debug, PartialEq)]
struct Dump {
    nodes: Vec<NodeD>,
    edges: Vec<EdgeD>,
    schema: String,
    unsupported: bool,
}

fn conv(v: &PropertyValue) -> Option<V> {
    match v {
        PropertyValue::Integer(i) => Some(V::I(*i)),
        PropertyValue::String(s) if s.len() == 1 => Some(V::S((s.as_bytes()[0] - b'a' + 1) as u64)),
        _ => None,
    }
}

fn dump(e: &QueryEngine, g: &GraphStore) -> Dump {
    let mut unsupported = false;
    let key_code = |k: &str| KEYS.iter().position(|x| *x == k).map(|p| p as u64);
    let mut nodes: Vec<NodeD> = g
        .all_nodes()
        .iter()
        .map(|n| {
            let mut labels: Vec<u64> = n
                .labels
                .iter()
                .map(|l| LABELS.iter().position(|x| *x == l.as_str()).unwrap_or(99) as u64)
                .collect();
            labels.sort();
            let mut props: Vec<(u64, V)> = Vec::new();
            for (k, v) in g.node_properties_full(n.id).iter() {
                if v.is_null() {
                    continue;
                }
                match (key_code(k), conv(v)) {
                    (Some(kc), Some(vc)) => props.push((kc, vc)),
                    _ => unsupported = true,
                }
            }
            props.sort_by_key(|p| p.0);
            NodeD { id: n.id.as_u64(), labels, props }
        })
        .collect();
    nodes.sort_by_key(|n| n.id);
    let mut edges: Vec<EdgeD> = g
        .all_edges()
        .iter()
        .map(|ed| {
            let mut props: Vec<(u64, V)> = Vec::new();
            for (k, v) in ed.properties.iter() {
                if v.is_null() {
                    continue;
                }
                match (key_code(k), conv(v)) {
                    (Some(kc), Some(vc)) => props.push((kc, vc)),
                    _ => unsupported = true,
                }
            }
            props.sort_by_key(|p| p.0);
            EdgeD { src: ed.source.as_u64(), dst: ed.target.as_u64(), ty: ed.edge_type.as_str().to_string(), props }
        })
        .collect();
    edges.sort_by(|a, b| (a.src, a.dst, &a.ty, format!("{:?}", a.props)).cmp(&(b.src, b.dst, &b.ty, format!("{:?}", b.props))));
    let show = |q: &str| -> String {
        match e.execute(q, g) {
            Ok(b) => {
                let mut rows: Vec<String> =
                    b.records.iter().map(|r| b.columns.iter().map(|c| format!("{:?}", r.get(c))).collect::<Vec<_>>().join(",")).collect();
                rows.sort();
                rows.join(";")
            }
            Err(x) => format!("ERR {}", x),
        }
    };
    let schema = format!("idx[{}] cons[{}]", show("SHOW INDEXES"), show("SHOW CONSTRAINTS"));
    Dump { nodes, edges, schema, unsupported }
}

/// index / constraint lookups must agree with the nodes themselves
fn index_consistent(e: &QueryEngine, g: &GraphStore, d: &Dump) -> Option<String> {
    for l in 1..=2u64 {
        for k in 1..=3u64 {
            let vals: BTreeSet<String> =
                d.nodes.iter().filter(|n| n.labels.contains(&l)).flat_map(|n| n.props.iter().filter(|p| p.0 == k).map(|p| p.1.lit())).collect();
            for lit in vals.iter().chain(["100".to_string(), "7".to_string()].iter()) {
                let q = format!("MATCH (n:{}) WHERE n.{} = {} RETURN id(n) AS i", LABELS[l as usize], KEYS[k as usize], lit);
                let got: BTreeSet<String> = match e.execute(&q, g) {
                    Ok(b) => b.records.iter().map(|r| format!("{:?}", r.get("i"))).collect(),
                    Err(x) => return Some(format!("{} -> ERR {}", q, x)),
                };
                let want: BTreeSet<String> = d
                    .nodes
                    .iter()
                    .filter(|n| n.labels.contains(&l) && n.props.iter().any(|p| p.0 == k && p.1.lit() == *lit))
                    .map(|n| format!("{:?}", Some(samyama::query::Value::Property(PropertyValue::Integer(n.id as i64)))))
                    .collect();
                if got != want {
                    return Some(format!("{} returns {:?}, the nodes say {:?}", q, got, want));
                }
            }
        }
    }
    None
}

fn g_node(n: &NodeD) -> String {
    format!(
        "{{| nid := {}; nlabels := {}; nprops := {} |}}",
        n.id,
        g_nlist(&n.labels),
        g_list(n.props.iter().map(|(k, v)| format!("({}, {})", k, v.g())))
    )
}
fn g_edge(i: usize, ed: &EdgeD) -> String {
    format!(
        "{{| eid := {}; esrc := {}; edst := {}; etype := {}; eprops := {} |}}",
        i,
        ed.src,
        ed.dst,
        if ed.ty == "R" { 1 } else { 99 },
        g_list(ed.props.iter().map(|(k, v)| format!("({}, {})", k, v.g())))
    )
}

// ---------- statements ----------
#[derive(Clone, Debug)]
enum T {
    UnwindCreate(Vec<V>, Vec<u64>, Vec<(u64, E)>, Option<E>),
    UnwindWithCreate(Vec<V>, E, Vec<u64>, u64),
    CreateMany(Vec<(Vec<u64>, Vec<(u64, V)>)>),
    MatchSet(u64, Vec<u64>, Vec<(u64, E)>, Vec<u64>, Option<E>),
    UnwindMerge(Vec<V>, Vec<u64>, Vec<(u64, E)>, Option<(u64, E)>),
    MatchCreateEdge(u64, Vec<u64>, E),
    MatchCreateNodeEdge(Vec<u64>, Vec<u64>, Vec<(u64, E)>),
    ParseError(String),
}

impl T {
    fn cypher(&self) -> String {
        match self {
            T::UnwindCreate(xs, ls, ps, ret) => format!(
                "UNWIND {} AS x CREATE (n{}{}){}",
                vals_cy(xs),
                labels_cy(ls),
                props_cy(ps, "n"),
                ret.as_ref().map(|e| format!(" RETURN {} AS z", e.cy("n"))).unwrap_or_default()
            ),
            T::UnwindWithCreate(xs, w, ls, k) => format!(
                "UNWIND {} AS x WITH x, {} AS y CREATE ({} {{{}: y}})",
                vals_cy(xs),
                w.cy("n"),
                labels_cy(ls),
                KEYS[*k as usize]
            ),
            T::CreateMany(ns) => format!(
                "CREATE {}",
                ns.iter()
                    .map(|(ls, ps)| format!(
                        "({}{})",
                        labels_cy(ls),
                        props_cy(&ps.iter().map(|(k, v)| (*k, E::Const(v.clone()))).collect::<Vec<_>>(), "n")
                    ))
                    .collect::<Vec<_>>()
                    .join(", ")
            ),
            T::MatchSet(label, _ids, items, ls, ret) => {
                let mut parts: Vec<String> = items.iter().map(|(k, e)| format!("n.{} = {}", KEYS[*k as usize], e.cy("n"))).collect();
                parts.extend(ls.iter().map(|l| format!("n:{}", LABELS[*l as usize])));
                format!(
                    "MATCH (n:{}) SET {}{}",
                    LABELS[*label as usize],
                    parts.join(", "),
                    ret.as_ref().map(|e| format!(" RETURN {} AS z", e.cy("n"))).unwrap_or_default()
                )
            }
            T::UnwindMerge(xs, ls, ps, oc) => format!(
                "UNWIND {} AS x MERGE (n{}{}){}",
                vals_cy(xs),
                labels_cy(ls),
                props_cy(ps, "n"),
                oc.as_ref().map(|(k, e)| format!(" ON CREATE SET n.{} = {}", KEYS[*k as usize], e.cy("n"))).unwrap_or_default()
            ),
            T::MatchCreateEdge(a, _bs, e) => {
                format!("MATCH (a), (b:M) WHERE id(a) = {} CREATE (a)-[:R {{w: {}}}]->(b)", a, e.cy("b"))
            }
            T::MatchCreateNodeEdge(_srcs, ls, ps) => format!("MATCH (a:M) CREATE (a)-[:R]->({}{})", labels_cy(ls), props_cy(ps, "a")),
            T::ParseError(s) => s.clone(),
        }
    }
    fn g(&self) -> String {
        match self {
            T::UnwindCreate(xs, ls, ps, ret) => {
                format!("(TUnwindCreate {} {} {} {})", g_vals(xs), g_nlist(ls), g_props(ps), g_opt(ret.as_ref().map(|e| e.g())))
            }
            T::UnwindWithCreate(xs, w, ls, k) => format!("(TUnwindWithCreate {} {} {} {})", g_vals(xs), w.g(), g_nlist(ls), k),
            T::CreateMany(ns) => format!(
                "(TCreateMany {})",
                g_list(ns.iter().map(|(ls, ps)| format!("({}, {})", g_nlist(ls), g_list(ps.iter().map(|(k, v)| format!("({}, {})", k, v.g()))))))
            ),
            T::MatchSet(_l, ids, items, ls, ret) => {
                format!("(TMatchSet {} {} {} {})", g_nlist(ids), g_props(items), g_nlist(ls), g_opt(ret.as_ref().map(|e| e.g())))
            }
            T::UnwindMerge(xs, ls, ps, oc) => format!(
                "(TUnwindMerge {} {} {} {})",
                g_vals(xs),
                g_nlist(ls),
                g_props(ps),
                g_opt(oc.as_ref().map(|(k, e)| format!("({}, {})", k, e.g())))
            ),
            T::MatchCreateEdge(a, bs, e) => format!("(TMatchCreateEdge {} {} 1 4 {})", a, g_nlist(bs), e.g()),
            T::MatchCreateNodeEdge(srcs, ls, ps) => format!("(TMatchCreateNodeEdge {} 1 {} {})", g_nlist(srcs), g_nlist(ls), g_props(ps)),
            T::ParseError(_) => "TParseError".into(),
        }
    }
}

fn err_class(msg: &str) -> &'static str {
    if msg.contains("Constraint violation") {
        "ErrConstraint"
    } else if msg.contains("Division by zero") || msg.contains("Modulo by zero") {
        "ErrDivZero"
    } else if msg.contains("Type error") {
        "ErrType"
    } else if msg.contains("Variable not found") {
        "ErrUnbound"
    } else if msg.to_lowercase().contains("pars") || msg.contains("expected") || msg.contains("-->") {
        "ErrPlan"
    } else {
        "ErrMissing"
    }
}

// ---------- graphs ----------
struct Pre {
    store: GraphStore,
    uniq: Vec<(u64, u64)>,
    m_ids: Vec<u64>, // :M nodes in scan order
}

fn run_q(e: &QueryEngine, g: &mut GraphStore, q: &str) {
    if let Err(x) = e.execute_mut(q, g, "default") {
        panic!("setup statement {} failed: {}", q, x);
    }
}

fn build(e: &QueryEngine, r: &mut Rng) -> Pre {
    let mut g = GraphStore::new();
    let mut uniq = vec![(1u64, 1u64)];
    run_q(e, &mut g, "CREATE CONSTRAINT ON (n:L) ASSERT n.k IS UNIQUE");
    if r.chance(1, 2) {
        run_q(e, &mut g, "CREATE CONSTRAINT ON (n:M) ASSERT n.p IS UNIQUE");
        uniq.push((2, 2));
    }
    if r.chance(1, 2) {
        run_q(e, &mut g, "CREATE INDEX ON :M(q)");
    }
    if r.chance(1, 3) {
        run_q(e, &mut g, "CREATE INDEX ON :L(q)");
    }
    // :M nodes with distinct p (one of them may be 0), q arbitrary
    let nm = r.range(1, 4);
    let mut ps: Vec<i64> = vec![1, 2, 3, 4, 5, 6];
    if r.chance(1, 2) {
        ps[r.below(nm) as usize] = 0;
    }
    for i in 0..nm {
        let extra = if r.chance(1, 4) { ":L" } else { "" };
        let q = r.range(10, 12);
        let kpart = if extra.is_empty() { String::new() } else { format!(", k: {}", 200 + i) };
        run_q(e, &mut g, &format!("CREATE (:M{} {{p: {}, q: {}{}}})", extra, ps[i as usize], q, kpart));
    }
    // :L nodes with k from 100..
    let nl = r.range(1, 3);
    for i in 0..nl {
        run_q(e, &mut g, &format!("CREATE (:L {{k: {}}})", 100 + i));
    }
    // a few relationships between existing nodes
    let total = nm + nl;
    for _ in 0..r.below(3) {
        let a = r.range(1, total);
        let b = r.range(1, total);
        run_q(e, &mut g, &format!("MATCH (a), (b) WHERE id(a) = {} AND id(b) = {} CREATE (a)-[:R]->(b)", a, b));
    }
    let m_ids: Vec<u64> = match e.execute("MATCH (n:M) RETURN id(n) AS i", &g) {
        Ok(b) => b
            .records
            .iter()
            .filter_map(|rec| match rec.get("i") {
                Some(samyama::query::Value::Property(PropertyValue::Integer(i))) => Some(*i as u64),
                _ => None,
            })
            .collect(),
        Err(x) => panic!("scan failed: {}", x),
    };
    Pre { store: g, uniq, m_ids }
}

/// a statement, the class expected when it fails (0 none, 1 partial-apply, 2 half-built-row),
/// whether a failure was planted, and a tag for the counters
struct Gen {
    t: T,
    cls: u64,
    planted: bool,
    tag: &'static str,
}

fn fresh_ints(r: &mut Rng, n: usize) -> Vec<i64> {
    // distinct, non-zero, not a value the graph holds in k
    let mut pool: Vec<i64> = (1..=12).collect();
    let mut out = Vec::new();
    for _ in 0..n {
        let i = r.below(pool.len() as u64) as usize;
        out.push(pool.remove(i));
    }
    out
}

fn prop_of(d: &Dump, id: u64, k: u64) -> Option<V> {
    d.nodes.iter().find(|n| n.id == id).and_then(|n| n.props.iter().find(|p| p.0 == k).map(|p| p.1.clone()))
}

fn gen(r: &mut Rng, pre: &Pre, d: &Dump) -> Gen {
    let n = r.range(1, 5) as usize;
    let pos = r.below(n as u64) as usize;
    let plant = !r.chance(1, 6);
    let rows_cls = |p: usize, first: u64| if p > 0 { 1 } else { first };
    match r.below(16) {
        // --- UNWIND .. CREATE, duplicate constrained value at row `pos`
        0 | 1 => {
            let mut xs: Vec<V> = fresh_ints(r, n).into_iter().map(V::I).collect();
            if plant {
                xs[pos] = if pos > 0 && r.chance(1, 2) { xs[r.below(pos as u64) as usize].clone() } else { V::I(100) };
            }
            let mut props = vec![(1, E::X)];
            if r.chance(1, 2) {
                props.push((3, E::Const(V::I(7))));
            }
            let labels = if r.chance(1, 4) { vec![1, 2] } else { vec![1] };
            // with :M and a unique :M(p) the node has no p, so nothing else can collide
            Gen { t: T::UnwindCreate(xs, labels, props, None), cls: if plant { rows_cls(pos, 0) } else { 0 }, planted: plant, tag: "create_dup" }
        }
        // --- UNWIND .. CREATE with a property expression that fails at row `pos`
        2 | 3 | 4 => {
            let mut xs: Vec<V> = fresh_ints(r, n).into_iter().map(V::I).collect();
            let (expr, bad, key) = match r.below(6) {
                0 => (E::DivBy(27720), V::I(0), 1),
                1 => (E::ModBy(7), V::I(0), 3),
                2 => (E::MulC(3), V::S(r.range(1, 3)), 1),
                3 => (E::SubC(50), V::S(1), 1),
                4 => (E::Neg, V::S(2), 1),
                _ => (E::Unbound, V::I(1), 1),
            };
            let unbound = matches!(expr, E::Unbound);
            if plant && !unbound {
                xs[pos] = bad;
            }
            let props = vec![(key, expr)];
            let fails = plant || unbound;
            let p = if unbound { 0 } else { pos };
            Gen { t: T::UnwindCreate(xs, vec![1], props, None), cls: if fails { rows_cls(p, 2) } else { 0 }, planted: fails, tag: "create_eval" }
        }
        // --- UNWIND .. CREATE .. RETURN <fails at row pos>: the projection runs after every write
        5 => {
            let mut xs: Vec<V> = fresh_ints(r, n).into_iter().map(V::I).collect();
            if plant {
                xs[pos] = V::I(0);
            }
            Gen { t: T::UnwindCreate(xs, vec![1], vec![(1, E::X)], Some(E::DivBy(60))), cls: if plant { 1 } else { 0 }, planted: plant, tag: "create_return" }
        }
        // --- UNWIND .. WITH <projection> .. CREATE
        6 | 7 => {
            let mut xs: Vec<V> = fresh_ints(r, n).into_iter().map(V::I).collect();
            if r.chance(1, 2) {
                // the projection fails: nothing has been written yet
                let (w, bad) = if r.chance(1, 2) { (E::DivBy(27720), V::I(0)) } else { (E::MulC(2), V::S(1)) };
                if plant {
                    xs[pos] = bad;
                }
                Gen { t: T::UnwindWithCreate(xs, w, vec![1], 1), cls: 0, planted: plant, tag: "with_eval" }
            } else {
                if plant {
                    xs[pos] = if pos > 0 { xs[0].clone() } else { V::I(100) };
                }
                Gen { t: T::UnwindWithCreate(xs, E::MulC(1), vec![1], 1), cls: if plant { rows_cls(pos, 0) } else { 0 }, planted: plant, tag: "with_dup" }
            }
        }
        // --- CREATE (..), (..), ..
        8 => {
            let mut ks: Vec<V> = fresh_ints(r, n).into_iter().map(V::I).collect();
            if plant {
                ks[pos] = if pos > 0 && r.chance(1, 2) { ks[0].clone() } else { V::I(100) };
            }
            let ns = ks.into_iter().map(|k| (vec![1u64], vec![(1u64, k)])).collect();
            Gen { t: T::CreateMany(ns), cls: if plant { if pos > 0 { 2 } else { 0 } } else { 0 }, planted: plant, tag: "create_many" }
        }
        // --- MATCH (n:M) SET ..
        9 | 10 => {
            let ids = pre.m_ids.clone();
            match r.below(4) {
                0 => {
                    // every :M node gets k = 7 and label L: the second row collides on :L(k)
                    let k_taken = d.nodes.iter().any(|n| n.labels.contains(&1) && n.props.contains(&(1, V::I(7))));
                    let already_l = |id: u64| d.nodes.iter().any(|n| n.id == id && n.labels.contains(&1));
                    // first row: k = 7 is set on the :M node; if it is already :L that is checked at once
                    let mut cls = 0;
                    let mut fails = false;
                    let mut holder = k_taken;
                    for (i, id) in ids.iter().enumerate() {
                        if holder {
                            // the SET is refused if this node is :L already, else the label is
                            fails = true;
                            cls = if i > 0 { 1 } else if already_l(*id) { 0 } else { 2 };
                            break;
                        }
                        holder = true;
                    }
                    Gen { t: T::MatchSet(2, ids, vec![(1, E::Const(V::I(7)))], vec![1], None), cls, planted: fails, tag: "set_label" }
                }
                1 => {
                    // n.q = 5 then n.p = 9: with :M(p) unique the second row is refused after its q was set
                    let constrained = pre.uniq.contains(&(2, 2));
                    let fails = constrained && ids.len() > 1;
                    Gen {
                        t: T::MatchSet(2, ids, vec![(3, E::Const(V::I(5))), (2, E::Const(V::I(9)))], vec![], None),
                        cls: if fails { 1 } else { 0 },
                        planted: fails,
                        tag: "set_unique",
                    }
                }
                2 => {
                    // n.q = 5, then n.p = <the p of the last :M node>: refused on the first row when constrained
                    let constrained = pre.uniq.contains(&(2, 2));
                    let last = *ids.last().unwrap();
                    let v = prop_of(d, last, 2).unwrap();
                    let fails = constrained && ids.len() > 1;
                    Gen {
                        t: T::MatchSet(2, ids, vec![(3, E::Const(V::I(5))), (2, E::Const(v))], vec![], None),
                        cls: if fails { 2 } else { 0 },
                        planted: fails,
                        tag: "set_unique_first_row",
                    }
                }
                _ => {
                    // SET n.q = 5 RETURN 60 / n.p : the projection fails on the row whose p is 0
                    let zero = ids.iter().position(|id| prop_of(d, *id, 2) == Some(V::I(0)));
                    Gen {
                        t: T::MatchSet(2, ids, vec![(3, E::Const(V::I(5)))], vec![], Some(E::DivByProp(60, 2))),
                        cls: if zero.is_some() { 1 } else { 0 },
                        planted: zero.is_some(),
                        tag: "set_return",
                    }
                }
            }
        }
        // --- UNWIND .. MERGE
        11 | 12 => {
            let mut xs: Vec<V> = fresh_ints(r, n).into_iter().map(V::I).collect();
            match r.below(4) {
                0 => {
                    if plant {
                        xs[pos] = V::I(0);
                    }
                    Gen { t: T::UnwindMerge(xs, vec![1], vec![(1, E::DivBy(27720))], None), cls: if plant { rows_cls(pos, 0) } else { 0 }, planted: plant, tag: "merge_eval" }
                }
                1 => {
                    if plant {
                        xs[pos] = V::I(0);
                    }
                    Gen {
                        t: T::UnwindMerge(xs, vec![1], vec![(1, E::X)], Some((3, E::DivBy(60)))),
                        cls: if plant { rows_cls(pos, 2) } else { 0 },
                        planted: plant,
                        tag: "merge_on_create_eval",
                    }
                }
                2 => {
                    // (k: x, q: 1): an existing :L {k: 100} has no q, so the pattern is absent and the create collides
                    if plant {
                        xs[pos] = V::I(100);
                    }
                    Gen {
                        t: T::UnwindMerge(xs, vec![1], vec![(1, E::X), (3, E::Const(V::I(1)))], None),
                        cls: if plant { rows_cls(pos, 0) } else { 0 },
                        planted: plant,
                        tag: "merge_dup",
                    }
                }
                _ => {
                    // repeated and existing values are matched, not created: no failure at all
                    if n > 1 {
                        xs[n - 1] = xs[0].clone();
                    }
                    xs[pos] = V::I(100);
                    Gen { t: T::UnwindMerge(xs, vec![1], vec![(1, E::X)], None), cls: 0, planted: false, tag: "merge_match" }
                }
            }
        }
        // --- MATCH (a), (b:M) CREATE (a)-[:R {w: 60 / b.p}]->(b)
        13 => {
            let bs = pre.m_ids.clone();
            let a = d.nodes[r.below(d.nodes.len() as u64) as usize].id;
            let zero = bs.iter().position(|id| prop_of(d, *id, 2) == Some(V::I(0)));
            if r.chance(1, 4) {
                Gen { t: T::MatchCreateEdge(a, bs, E::Prop(3)), cls: 0, planted: false, tag: "edge_ok" }
            } else {
                Gen {
                    t: T::MatchCreateEdge(a, bs, E::DivByProp(60, 2)),
                    cls: match zero {
                        Some(0) => 2,
                        Some(_) => 1,
                        None => 0,
                    },
                    planted: zero.is_some(),
                    tag: "edge_eval",
                }
            }
        }
        // --- MATCH (a:M) CREATE (a)-[:R]->(:L {k: ..})
        14 => {
            let srcs = pre.m_ids.clone();
            if r.chance(1, 2) {
                // k: 7 for every row: the second row collides
                let taken = d.nodes.iter().any(|n| n.labels.contains(&1) && n.props.contains(&(1, V::I(7))));
                let fails = taken || srcs.len() > 1;
                Gen {
                    t: T::MatchCreateNodeEdge(srcs, vec![1], vec![(1, E::Const(V::I(7)))]),
                    cls: if taken { 0 } else if fails { 1 } else { 0 },
                    planted: fails,
                    tag: "node_edge_dup",
                }
            } else {
                let zero = srcs.iter().position(|id| prop_of(d, *id, 2) == Some(V::I(0)));
                Gen {
                    t: T::MatchCreateNodeEdge(srcs, vec![1], vec![(1, E::DivByProp(27720, 2))]),
                    cls: match zero {
                        Some(0) => 2,
                        Some(_) => 1,
                        None => 0,
                    },
                    planted: zero.is_some(),
                    tag: "node_edge_eval",
                }
            }
        }
        _ => {
            let s = *r.pick(&["UNWIND [1, 2] AS x CREATE (:L {k: x}", "UNWIND [1, 2] AS x CREATE :L {k: x})", "MATCH (n:M) SET n.q = ", "CREATE (:L {k: 1}), (:L {k: })"]);
            Gen { t: T::ParseError(s.to_string()), cls: 0, planted: true, tag: "parse_error" }
        }
    }
}

const CLASS_NAMES: [&str; 3] = ["", "partial-apply", "half-built-row"];

fn run_case(out: &mut Out, e: &QueryEngine, case_no: u64, seed: u64) {
    let idx = out.next_index();
    if !out.wants(idx) {
        out.skip();
        return;
    }
    let mut r = Rng::for_case(seed, case_no);
    let mut pre = build(e, &mut r);
    let before = dump(e, &pre.store);
    let gn = gen(&mut r, &pre, &before);
    let q = gn.t.cypher();
    let res = catch(std::panic::AssertUnwindSafe(|| e.execute_mut(&q, &mut pre.store, "default").map(|b| b.records.len()).map_err(|x| x.to_string())));
    let after = dump(e, &pre.store);
    let human = format!("{}   on nodes {:?} edges {:?} unique {:?}", q, before.nodes, before.edges, pre.uniq);
    let mut bad: Vec<(String, Option<&str>)> = Vec::new();
    let oe: Option<&'static str> = match &res {
        Ok(Ok(_)) => None,
        Ok(Err(m)) => Some(err_class(m)),
        Err(p) => {
            bad.push((format!("panic: {}", p), None));
            Some("ErrMissing")
        }
    };
    out.count(&format!("shape_{}", gn.tag));
    let changed = before != after;
    let mut cls_for_model = 0;
    if let Some(ec) = oe {
        out.count("failed_statements");
        out.count(&format!("failed_{}", ec));
        cls_for_model = gn.cls;
        if changed {
            out.count("failed_and_changed");
            let detail = format!(
                "statement failed ({}) and the store changed: before nodes {:?} edges {:?}; after nodes {:?} edges {:?}",
                res.as_ref().ok().and_then(|x| x.as_ref().err()).cloned().unwrap_or_default(),
                before.nodes,
                before.edges,
                after.nodes,
                after.edges
            );
            let kc = if gn.cls > 0 && before.schema == after.schema { Some(CLASS_NAMES[gn.cls as usize]) } else { None };
            if let Some(k) = kc {
                out.count(&format!("class_{}", k));
            }
            bad.push((detail, kc));
        } else {
            out.count("failed_and_unchanged");
            if gn.cls == 0 {
                out.count("atomic_failure_as_expected");
            }
        }
    } else {
        out.count("succeeded_statements");
        if gn.planted {
            out.count("planted_failure_did_not_fail");
        }
    }
    if let Some(m) = index_consistent(e, &pre.store, &after) {
        bad.push((format!("index lookup disagrees with the nodes after the statement: {}", m), None));
    }
    if after.unsupported || before.unsupported {
        out.count("unsupported_value_in_dump");
    }
    let g_graph = format!(
        "{{| nodes := {}; edges := {}; uniq := {}; next_node := {}; next_edge := {} |}}",
        g_list(before.nodes.iter().map(g_node)),
        g_list(before.edges.iter().enumerate().map(|(i, x)| g_edge(i, x))),
        g_list(pre.uniq.iter().map(|(a, b)| format!("({}, {})", a, b))),
        before.nodes.iter().map(|n| n.id).max().unwrap_or(0) + 1,
        before.edges.len()
    );
    let g = format!(
        "({}, {}, {}, ({}, {}), {})",
        g_graph,
        gn.t.g(),
        g_opt(oe.map(|s| s.to_string())),
        g_list(after.nodes.iter().map(g_node)),
        g_list(after.edges.iter().enumerate().map(|(i, x)| g_edge(i, x))),
        cls_for_model
    );
    let i = out.case(g, human.clone(), true);
    for (detail, kc) in bad {
        out.fail(i, &human, &detail, kc);
    }
}

fn replay_witnesses(out: &mut Out, e: &QueryEngine) {
    let mut w = |class: &str, q: &str| {
        let mut g = GraphStore::new();
        run_q(e, &mut g, "CREATE CONSTRAINT ON (n:L) ASSERT n.k IS UNIQUE");
        let before = dump(e, &g);
        let r = e.execute_mut(q, &mut g, "default");
        let after = dump(e, &g);
        let still = r.is_err() && before != after;
        out.known.push(KnownReplay {
            class: class.to_string(),
            still_fails: still,
            detail: format!(
                "{} on an empty graph with UNIQUE :L(k) -> {} ; nodes afterwards: {:?}",
                q,
                match &r {
                    Ok(_) => "Ok".to_string(),
                    Err(x) => format!("Err({})", x),
                },
                after.nodes
            ),
        });
    };
    w("partial-apply", "UNWIND [1, 1] AS x CREATE (:L {k: x})");
    w("half-built-row", "UNWIND [0] AS x CREATE (:L {k: 10 / x})");
}

fn main() {
    let args = parse_args();
    quiet_panics();
    let e = QueryEngine::new();
    let mut out = Out::new(&args, "From Verif Require Import StreamExec.", "StreamExec.case", "StreamExec.check_case", 250);
    out.rule = "random small graph (1-4 :M nodes with distinct p, one possibly 0, 1-3 :L nodes, a few relationships, UNIQUE :L(k), \
                optionally UNIQUE :M(p) and indexes) x one write statement of 1-5 rows: UNWIND..CREATE / UNWIND..WITH..CREATE / \
                CREATE (..),(..) / MATCH..SET (properties and labels) / UNWIND..MERGE [ON CREATE SET] / MATCH..CREATE \
                relationship / MATCH..CREATE node+relationship / a statement the parser refuses, with a failure (zero divisor, \
                string operand, unbound variable, duplicate constrained value, constrained SET or label, failing RETURN) planted \
                at a uniformly chosen row position (1 in 6 statements has none); full dump before and after. Non-trivial = all; \
                distinct by case text."
        .to_string();
    replay_witnesses(&mut out, &e);
    let n = if args.thorough { 10000 } else { 1200 };
    for c in 0..n {
        run_case(&mut out, &e, c, args.seed);
    }
    out.finish();
}
