//! C08 — version GC never changes a read it must preserve.
//!
//! Histories of create / set property / version bump (a transaction commit) / gc_versions(w) /
//! gc_auto on GraphStore.  After every call every versioned read is recorded; around every
//! GC the property's own predicate is evaluated on the implementation: every
//! (entity, version >= w) read, and every active transaction's read, is the same before and after.
use samyama::graph::{EdgeId, GraphError, GraphStore, IsolationLevel, Label, NodeId, PropertyMap, PropertyValue, TxnStatus};
use vh::*;

#[derive(Clone, Debug, PartialEq)]
enum Op {
    CreateNode(Vec<(u64, u64)>),
    SetNode(u64, u64, u64),
    CreateEdge(u64, u64),
    SetEdge(u64, u64, u64),
    /// create_edge followed by set_edge_property_sparse per property (what Cypher CREATE / MERGE do)
    CreateEdgeP(u64, u64, Vec<(u64, u64)>),
    /// remove_edge_property
    RemoveEdge(u64, u64),
    Begin(bool),
    Commit(u64),
    Abort(u64),
    Gc(u64),
    GcAuto,
}

fn g_props(p: &[(u64, u64)]) -> String {
    g_list(p.iter().map(|(k, v)| format!("({}, {})", k, v)))
}
fn g_op(o: &Op) -> String {
    match o {
        Op::CreateNode(p) => format!("CreateNode {}", g_props(p)),
        Op::SetNode(n, k, v) => format!("SetNode {} {} {}", n, k, v),
        Op::CreateEdge(a, b) => format!("CreateEdge {} {}", a, b),
        Op::SetEdge(e, k, v) => format!("SetEdge {} {} {}", e, k, v),
        Op::CreateEdgeP(a, b, p) => format!("CreateEdgeP {} {} {}", a, b, g_props(p)),
        Op::RemoveEdge(e, k) => format!("RemoveEdge {} {}", e, k),
        Op::Begin(si) => format!("Tx (Begin {})", if *si { "SI" } else { "RC" }),
        Op::Commit(t) => format!("Tx (Commit {})", t),
        Op::Abort(t) => format!("Tx (Abort {})", t),
        Op::Gc(w) => format!("Tx (Gc {})", w),
        Op::GcAuto => "Tx GcAuto".to_string(),
    }
}
fn h_op(o: &Op) -> String {
    match o {
        Op::CreateNode(p) => format!("cn{:?}", p),
        Op::SetNode(n, k, v) => format!("sn{}.{}={}", n, k, v),
        Op::CreateEdge(a, b) => format!("ce{}-{}", a, b),
        Op::SetEdge(e, k, v) => format!("se{}.{}={}", e, k, v),
        Op::CreateEdgeP(a, b, p) => format!("cep{}-{}{:?}", a, b, p),
        Op::RemoveEdge(e, k) => format!("re{}.{}", e, k),
        Op::Begin(si) => format!("B{}", if *si { "si" } else { "rc" }),
        Op::Commit(t) => format!("{}C", t),
        Op::Abort(t) => format!("{}A", t),
        Op::Gc(w) => format!("gc{}", w),
        Op::GcAuto => "gcauto".to_string(),
    }
}

type Read = Option<(u64, Vec<(u64, u64)>)>;

fn props_of(p: &PropertyMap) -> Vec<(u64, u64)> {
    let mut v: Vec<(u64, u64)> = p
        .iter()
        .map(|(k, val)| {
            let key: u64 = k.trim_start_matches('k').parse().expect("key");
            let x = val.as_integer().expect("integer value") as u64;
            (key, x)
        })
        .collect();
    v.sort();
    v
}
fn key(k: u64) -> String {
    format!("k{}", k)
}
fn to_map(p: &[(u64, u64)]) -> PropertyMap {
    let mut m = PropertyMap::new();
    for (k, v) in p {
        m.insert(key(*k), PropertyValue::Integer(*v as i64));
    }
    m
}

fn read_node(s: &GraphStore, id: u64, v: u64) -> Read {
    s.get_node_at_version(NodeId::new(id), v).map(|n| (n.version, props_of(&n.properties)))
}
fn read_edge(s: &GraphStore, id: u64, v: u64) -> Read {
    s.get_edge_at_version(EdgeId::new(id), v).map(|e| (e.version, props_of(&e.properties)))
}
fn node_for_txn(s: &GraphStore, t: u64, id: u64) -> Read {
    s.get_node_for_txn(t, NodeId::new(id)).map(|n| (n.version, props_of(&n.properties)))
}
fn edge_for_txn(s: &GraphStore, t: u64, id: u64) -> Read {
    s.get_edge_for_txn(t, EdgeId::new(id)).map(|e| (e.version, props_of(&e.properties)))
}

fn enc_read(r: &Read) -> u64 {
    match r {
        None => 0,
        Some((ver, p)) => {
            assert!(*ver < 256, "version bound of the packing");
            let mut pp = 0u64;
            for (k, v) in p {
                assert!(*k < 2 && *v < 4, "property bound of the packing");
                pp += (v + 1) * 8u64.pow(*k as u32);
            }
            1 + 2 * (ver + 256 * pp)
        }
    }
}
/// base-2^16 packing, first element = lowest digit, printed in hexadecimal
fn pack_hex(xs: &[u64]) -> String {
    let mut s = String::from("0x0");
    for x in xs.iter().rev() {
        assert!(*x < 65536);
        s.push_str(&format!("{:04x}", x));
    }
    s
}

struct Scope {
    nn: u64,
    ne: u64,
    k: u64,
}

fn all_node_reads(s: &GraphStore, sc: &Scope) -> Vec<Vec<Read>> {
    (1..=sc.nn).map(|id| (0..=s.current_version + 1).map(|v| read_node(s, id, v)).collect()).collect()
}
fn all_edge_reads(s: &GraphStore, sc: &Scope) -> Vec<Vec<Read>> {
    (1..=sc.ne).map(|id| (0..=s.current_version + 1).map(|v| read_edge(s, id, v)).collect()).collect()
}
/// per transaction id: reads of every node then every relationship
fn all_txn_reads(s: &GraphStore, sc: &Scope) -> Vec<Vec<Read>> {
    (1..=sc.k)
        .map(|t| {
            let mut v: Vec<Read> = (1..=sc.nn).map(|id| node_for_txn(s, t, id)).collect();
            v.extend((1..=sc.ne).map(|id| edge_for_txn(s, t, id)));
            v
        })
        .collect()
}
fn active_ids(s: &GraphStore) -> Vec<u64> {
    let mut v: Vec<u64> = s.active_transactions.iter().filter(|(_, t)| t.status == TxnStatus::Active).map(|(i, _)| *i).collect();
    v.sort();
    v
}

struct Ctx {
    mutate: u8,
    mutated: bool,
}

fn run_case(out: &mut Out, ctx: &mut Ctx, sc: &Scope, ops: &[Op], tag: &str) {
    let idx = out.next_index();
    if !out.wants(idx) {
        out.skip();
        return;
    }
    let mut store = GraphStore::new();
    let mut bad: Option<String> = None;
    let mut obs: Vec<String> = Vec::new();
    let mut pruned_nodes = false;
    let mut pruned_edges = false;
    let mut gc_with_active = false;
    let mut gc_auto_pruned_with_active = false;
    let mut gc_above_watermark = false;
    let mut edge_log_late = false;
    let mut compared = 0u64;
    let mut edge_created_late = false;
    let mut late_edge_updated = false;
    let mut edge_prop_removed = false;
    // first observation of every read at a version older than the current one: (is_edge, id, version)
    let mut seen: std::collections::BTreeMap<(bool, u64, u64), Read> = std::collections::BTreeMap::new();
    for (pos, op) in ops.iter().enumerate() {
        // ---- before a GC: what must be preserved ----
        let gc_w = match op {
            Op::Gc(w) => Some(*w),
            Op::GcAuto => Some(store.gc_watermark()),
            _ => None,
        };
        let before_remove: Read = if let Op::RemoveEdge(e, _) = op { read_edge(&store, *e, store.current_version) } else { None };
        let before = gc_w.map(|_| (all_node_reads(&store, sc), all_edge_reads(&store, sc), all_txn_reads(&store, sc), active_ids(&store), store.gc_watermark()));
        let res: String = match op {
            Op::CreateNode(p) => {
                let id = if p.is_empty() {
                    store.create_node("L")
                } else {
                    store.create_node_with_properties("default", vec![Label::from("L")], to_map(p))
                };
                format!("MId {}", id.as_u64())
            }
            Op::SetNode(n, k, v) => match store.set_node_property("default", NodeId::new(*n), key(*k), PropertyValue::Integer(*v as i64)) {
                Ok(()) => "MOk".into(),
                Err(GraphError::NodeNotFound(_)) => "MErr".into(),
                Err(e) => {
                    bad.get_or_insert(format!("op {}: unexpected error {:?}", pos, e));
                    "MErr".into()
                }
            },
            Op::CreateEdge(a, b) => match store.create_edge(NodeId::new(*a), NodeId::new(*b), "R") {
                Ok(id) => format!("MId {}", id.as_u64()),
                Err(GraphError::InvalidEdgeSource(_)) | Err(GraphError::InvalidEdgeTarget(_)) => "MErr".into(),
                Err(e) => {
                    bad.get_or_insert(format!("op {}: unexpected error {:?}", pos, e));
                    "MErr".into()
                }
            },
            Op::SetEdge(e, k, v) => match store.set_edge_property(EdgeId::new(*e), key(*k), PropertyValue::Integer(*v as i64)) {
                Ok(()) => "MOk".into(),
                Err(GraphError::EdgeNotFound(_)) => "MErr".into(),
                Err(e) => {
                    bad.get_or_insert(format!("op {}: unexpected error {:?}", pos, e));
                    "MErr".into()
                }
            },
            Op::CreateEdgeP(a, b, p) => match store.create_edge(NodeId::new(*a), NodeId::new(*b), "R") {
                Ok(id) => {
                    for (k, v) in p {
                        store.set_edge_property_sparse(id, key(*k), PropertyValue::Integer(*v as i64));
                    }
                    format!("MId {}", id.as_u64())
                }
                Err(GraphError::InvalidEdgeSource(_)) | Err(GraphError::InvalidEdgeTarget(_)) => "MErr".into(),
                Err(e) => {
                    bad.get_or_insert(format!("op {}: unexpected error {:?}", pos, e));
                    "MErr".into()
                }
            },
            Op::RemoveEdge(e, k) => {
                store.remove_edge_property(EdgeId::new(*e), &key(*k));
                "MOk".into()
            }
            Op::Begin(si) => {
                let id = store.begin_transaction(if *si { IsolationLevel::SnapshotIsolation } else { IsolationLevel::ReadCommitted });
                format!("MTx (RBegin {})", id)
            }
            Op::Commit(t) => match store.commit_transaction(*t) {
                Ok(v) => format!("MTx (ROk {})", v),
                Err(GraphError::WriteConflict(_)) => "MTx RConflict".into(),
                Err(GraphError::TransactionNotActive(_)) => "MTx RNotActive".into(),
                Err(GraphError::TransactionNotFound(_)) => "MTx RNotFound".into(),
                Err(e) => {
                    bad.get_or_insert(format!("op {}: unexpected error {:?}", pos, e));
                    "MErr".into()
                }
            },
            Op::Abort(t) => match store.abort_transaction(*t) {
                Ok(()) => "MTx RUnit".into(),
                Err(GraphError::TransactionNotActive(_)) => "MTx RNotActive".into(),
                Err(GraphError::TransactionNotFound(_)) => "MTx RNotFound".into(),
                Err(e) => {
                    bad.get_or_insert(format!("op {}: unexpected error {:?}", pos, e));
                    "MErr".into()
                }
            },
            Op::Gc(w) => {
                let (a, b) = store.gc_versions(*w);
                pruned_nodes |= a > 0;
                pruned_edges |= b > 0;
                format!("MGc {} {}", a, b)
            }
            Op::GcAuto => {
                let had_active = !active_ids(&store).is_empty();
                let (a, b) = store.gc_auto();
                pruned_nodes |= a > 0;
                pruned_edges |= b > 0;
                if had_active && a + b > 0 {
                    gc_auto_pruned_with_active = true;
                }
                format!("MGc {} {}", a, b)
            }
        };
        if let Op::SetEdge(e, _, _) = op {
            // a relationship whose log starts after its creation version
            if store.current_version > 1 && read_edge(&store, *e, 1).is_some() {
                edge_log_late = true;
            }
        }
        let mut nodes_after = all_node_reads(&store, sc);
        let edges_after = all_edge_reads(&store, sc);
        let txn_after = all_txn_reads(&store, sc);
        if matches!(op, Op::CreateEdge(_, _) | Op::CreateEdgeP(_, _, _)) && res.starts_with("MId") && store.current_version > 1 {
            edge_created_late = true;
        }
        if let Op::SetEdge(e, _, _) | Op::RemoveEdge(e, _) = op {
            if res == "MOk" && read_edge(&store, *e, 1).is_none() && read_edge(&store, *e, store.current_version).is_some() {
                late_edge_updated = true;
            }
        }
        if let Op::RemoveEdge(e, k) = op {
            let had = before_remove.as_ref().map_or(false, |r| r.1.iter().any(|(kk, _)| kk == k));
            if had {
                edge_prop_removed = true;
                let _ = e;
            }
        }
        // reads of the past are stable (C07): a collection may only change reads below its watermark
        if let Some(w) = gc_w {
            seen.retain(|(_, _, v), _| *v >= w);
        }
        for (is_edge, m) in [(false, &nodes_after), (true, &edges_after)] {
            for (i, row) in m.iter().enumerate() {
                for v in 0..store.current_version {
                    let r = &row[v as usize];
                    match seen.get(&(is_edge, i as u64 + 1, v)) {
                        Some(old) if old != r => {
                            bad.get_or_insert(format!(
                                "op {} {}: read of {} {} at version {} was {:?}, is now {:?} (current version {})",
                                pos, h_op(op), if is_edge { "relationship" } else { "node" }, i + 1, v, old, r, store.current_version
                            ));
                        }
                        Some(_) => {}
                        None => {
                            seen.insert((is_edge, i as u64 + 1, v), r.clone());
                        }
                    }
                }
            }
        }
        // ---- the property's predicate, on the implementation ----
        if let (Some(w), Some((nb, eb, tb, act, wm))) = (gc_w, before) {
            if !act.is_empty() {
                gc_with_active = true;
            }
            if w > wm {
                gc_above_watermark = true;
            }
            // debug mutation of one observation that must be preserved (off unless VERIF_C08_MUTATE is set)
            if ctx.mutate == 1 && !ctx.mutated {
                'm: for (i, row) in nodes_after.iter_mut().enumerate() {
                    for v in (w as usize)..row.len() {
                        if row[v].is_some() && nb[i][v] == row[v] && res != "MGc 0 0" {
                            row[v] = None;
                            ctx.mutated = true;
                            break 'm;
                        }
                    }
                }
            }
            for (i, row) in nodes_after.iter().enumerate() {
                for v in (w as usize)..row.len() {
                    compared += 1;
                    if nb[i][v] != row[v] {
                        bad.get_or_insert(format!("op {} gc({}): get_node_at_version(node {}, {}) was {:?}, now {:?}", pos, w, i + 1, v, nb[i][v], row[v]));
                    }
                }
            }
            for (i, row) in edges_after.iter().enumerate() {
                for v in (w as usize)..row.len() {
                    compared += 1;
                    if eb[i][v] != row[v] {
                        bad.get_or_insert(format!("op {} gc({}): get_edge_at_version(relationship {}, {}) was {:?}, now {:?}", pos, w, i + 1, v, eb[i][v], row[v]));
                    }
                }
            }
            // a collection at or below the safe watermark (gc_auto always is) must not change
            // what any active transaction reads
            if w <= wm {
                for t in &act {
                    let ti = (*t - 1) as usize;
                    if ti < tb.len() {
                        compared += tb[ti].len() as u64;
                        if tb[ti] != txn_after[ti] {
                            bad.get_or_insert(format!("op {} {}: active transaction {} read {:?} before and {:?} after", pos, h_op(op), t, tb[ti], txn_after[ti]));
                        }
                    }
                }
            }
        }
        // ---- observations ----
        let mut sts = 0u64;
        for id in 1..=sc.k {
            let st = match store.active_transactions.get(&id).map(|t| t.status) {
                None => 0u64,
                Some(TxnStatus::Active) => 1,
                Some(TxnStatus::Committed) => 2,
                Some(TxnStatus::Aborted) => 3,
            };
            sts += st << (2 * (id - 1));
        }
        let flat = |m: &Vec<Vec<Read>>| -> Vec<u64> { m.iter().flat_map(|r| r.iter().map(enc_read)).collect() };
        let full = gc_w.is_some() || matches!(op, Op::CreateEdge(_, _) | Op::SetEdge(_, _, _) | Op::CreateEdgeP(_, _, _) | Op::RemoveEdge(_, _)) || pos + 1 == ops.len() || matches!(ops.get(pos + 1), Some(Op::Gc(_)) | Some(Op::GcAuto));
        if full {
            obs.push(format!(
                "ObR ({}) {} {} {} {} {}",
                res,
                store.current_version,
                sts,
                pack_hex(&flat(&nodes_after)),
                pack_hex(&flat(&edges_after)),
                pack_hex(&flat(&txn_after))
            ));
        } else {
            obs.push(format!("Ob ({}) {} {}", res, store.current_version, sts));
        }
    }
    if pruned_nodes {
        out.count("gc_pruned_node_versions");
    }
    if pruned_edges {
        out.count("gc_pruned_log_entries");
    }
    if gc_with_active {
        out.count("gc_with_active_txn");
    }
    if gc_auto_pruned_with_active {
        out.count("gc_auto_pruned_with_active_txn");
    }
    if gc_above_watermark {
        out.count("gc_above_watermark");
    }
    if edge_created_late {
        out.count("edge_created_after_version_1");
    }
    if late_edge_updated {
        out.count("late_edge_updated");
    }
    if edge_prop_removed {
        out.count("edge_property_removed");
    }
    if edge_log_late {
        out.count("edge_log_starts_after_creation");
    }
    out.count_n("reads_compared_across_gc", compared);
    out.count_n("ops", ops.len() as u64);
    let human = format!("{} nn={} ne={} k={} [{}]", tag, sc.nn, sc.ne, sc.k, ops.iter().map(h_op).collect::<Vec<_>>().join(" "));
    let g = format!("Case {} {} {} {} {}", sc.nn, sc.ne, sc.k, g_list(ops.iter().map(g_op)), g_list(obs.into_iter()));
    let i = out.case(g, human.clone(), pruned_nodes || pruned_edges);
    if let Some(b) = bad {
        out.fail(i, &human, &b, None);
    }
}

/// Bookkeeping used to turn abstract history letters into concrete calls.
#[derive(Clone)]
struct Book {
    cur: u64,
    next_txn: u64,
    active: Vec<u64>,
}

/// the 8 letters of the exhaustive alphabet; `val` varies with the position
fn letter(l: u32, val: u64, b: &mut Book, ops: &mut Vec<Op>) {
    match l {
        0 => ops.push(Op::SetNode(1, 0, val)),
        1 => ops.push(Op::SetEdge(1, 0, val)),
        2 => {
            // version bump: a transaction that begins and commits
            let id = b.next_txn;
            b.next_txn += 1;
            ops.push(Op::Begin(false));
            ops.push(Op::Commit(id));
            b.cur += 1;
        }
        3 => {
            ops.push(Op::Begin(true));
            b.active.push(b.next_txn);
            b.next_txn += 1;
        }
        4 => {
            // finish the oldest active transaction (commit: bumps the version); none: begin RC
            if b.active.is_empty() {
                ops.push(Op::Begin(false));
                b.active.push(b.next_txn);
                b.next_txn += 1;
            } else {
                let t = b.active.remove(0);
                ops.push(Op::Commit(t));
                b.cur += 1;
            }
        }
        5 => ops.push(Op::RemoveEdge(1, 0)),
        6 => ops.push(Op::SetEdge(2, 1, val)),
        // a relationship created with a property at whatever version is current (id 2 the first time)
        _ => ops.push(Op::CreateEdgeP(2, 1, vec![(0, val)])),
    }
}

/// setup 0: 2 nodes and 1 relationship, everything at version 1.
/// setup 1: the same, then node 1 and the relationship written at versions 1 and 2, node 2 at 3
///          (current_version 3, every chain has two entries).
/// setup 2: setup 1 with a snapshot transaction begun at version 2 and still active.
fn setup(which: u8) -> (Vec<Op>, Book) {
    let mut ops = vec![Op::CreateNode(vec![]), Op::CreateNode(vec![(0, 1)]), Op::CreateEdge(1, 2)];
    let mut b = Book { cur: 1, next_txn: 1, active: vec![] };
    if which >= 1 {
        ops.extend([Op::SetNode(1, 0, 1), Op::SetEdge(1, 0, 1), Op::Begin(false), Op::Commit(1)]);
        ops.extend([Op::SetNode(1, 0, 2), Op::SetEdge(1, 1, 2)]);
        b.next_txn = 2;
        if which == 2 {
            ops.push(Op::Begin(true));
            b.active.push(2);
            b.next_txn = 3;
        }
        ops.extend([Op::Begin(false), Op::Commit(b.next_txn), Op::SetNode(2, 1, 3)]);
        b.next_txn += 1;
        b.cur = 3;
    }
    (ops, b)
}

fn exhaustive(out: &mut Out, ctx: &mut Ctx, which: u8, len: usize) {
    let (prefix, b0) = setup(which);
    let sc = Scope { nn: 2, ne: 2, k: b0.next_txn - 1 + len as u64 };
    let tag = format!("x{}", which);
    let total = 8u32.pow(len as u32);
    for code in 0..total {
        let letters: Vec<u32> = (0..len).map(|i| (code / 8u32.pow(i as u32)) % 8).collect();
        // for every insertion point: the calls before it, the version there, the calls after
        for p in 0..=len {
            let mut b = b0.clone();
            let mut head = prefix.clone();
            for (i, l) in letters[..p].iter().enumerate() {
                letter(*l, (i as u64 + 1) % 4, &mut b, &mut head);
            }
            let cur_at_p = b.cur;
            let mut tail = Vec::new();
            for (i, l) in letters[p..].iter().enumerate() {
                letter(*l, ((p + i) as u64 + 1) % 4, &mut b, &mut tail);
            }
            let mut gcs: Vec<Op> = (0..=cur_at_p + 1).map(Op::Gc).collect();
            gcs.push(Op::GcAuto);
            for g in gcs {
                let mut ops = head.clone();
                ops.push(g);
                ops.extend(tail.iter().cloned());
                run_case(out, ctx, &sc, &ops, &tag);
            }
        }
    }
}

fn main() {
    let args = parse_args();
    let mut ctx = Ctx { mutate: std::env::var("VERIF_C08_MUTATE").ok().and_then(|s| s.parse().ok()).unwrap_or(0), mutated: false };
    let mut out = Out::new(&args, "From Verif Require Import Txn Mvcc.", "Mvcc.case", "Mvcc.check_case", 500);
    out.rule = "exhaustive: from three setups (2 nodes + 1 relationship at version 1; the same with two-entry chains at \
                version 3; the same with a snapshot transaction active since version 2) every history of <=2/3/2 \
                (thorough: <=3/4/3) letters from {set node 1, set relationship 1, remove a property of relationship 1, create relationship 2 with a property (create_edge + set_edge_property_sparse), set relationship 2, version bump by a committed transaction, begin a \
                snapshot transaction and leave it active, finish the oldest active transaction}, with gc_versions(w) for \
                every w in 0..=current+1 and gc_auto inserted at every point. random: <=28 calls over <=3 nodes / 2 \
                relationships / 4 transactions incl. creations at later versions, writes to missing ids and several GCs. \
                After every call: result, current_version, transaction statuses, every get_node_at_version / \
                get_edge_at_version for versions 0..=current+1 and every get_node_for_txn / get_edge_for_txn. Around every \
                GC every (entity, version >= w) read and every active transaction's reads (when w <= watermark) are \
                compared before/after on the implementation; every read at a version older than the current one is \
                re-checked after every later call (only a GC may change it, and only below its watermark). Non-trivial = some GC pruned something; distinct by case text."
        .to_string();
    if ctx.mutate != 0 {
        out.notes.push("DEBUG MUTATION ACTIVE: one observation is deliberately falsified".to_string());
    }
    let lens: [usize; 3] = if args.thorough { [3, 4, 3] } else { [2, 3, 2] };
    for which in 0..3u8 {
        for len in 0..=lens[which as usize] {
            exhaustive(&mut out, &mut ctx, which, len);
        }
    }
    let n = if args.thorough { 6000 } else { 600 };
    for c in 0..n {
        let mut r = Rng::for_case(args.seed, c);
        let sc = Scope { nn: 3, ne: 2, k: 4 };
        let len = r.range(6, 28);
        let mut ops = vec![Op::CreateNode(vec![]), Op::CreateNode(vec![(1, r.below(4))])];
        let mut cur = 1u64;
        let mut begun = 0u64;
        let mut open: Vec<u64> = Vec::new();
        for _ in 0..len {
            let op = match r.below(24) {
                0 => Op::CreateNode(if r.chance(1, 2) { vec![] } else { vec![(0, r.below(4))] }),
                1 => Op::CreateEdge(r.range(1, 3), r.range(1, 3)),
                2 => Op::CreateEdgeP(r.range(1, 3), r.range(1, 3), if r.chance(1, 2) { vec![(0, r.below(4))] } else { vec![(0, r.below(4)), (1, r.below(4))] }),
                3..=7 => Op::SetNode(r.range(1, 3), r.below(2), r.below(4)),
                8..=10 => Op::SetEdge(r.range(1, 2), r.below(2), r.below(4)),
                11..=12 => Op::RemoveEdge(r.range(1, 2), r.below(2)),
                13..=15 if begun < 4 => Op::Begin(r.chance(2, 3)),
                13..=17 => {
                    if !open.is_empty() && r.chance(5, 6) {
                        let t = open.remove(r.below(open.len() as u64) as usize);
                        if r.chance(3, 4) {
                            cur += 1;
                            Op::Commit(t)
                        } else {
                            Op::Abort(t)
                        }
                    } else {
                        Op::Commit(r.range(1, 5))
                    }
                }
                18..=20 => Op::GcAuto,
                _ => Op::Gc(r.range(0, cur + 1)),
            };
            if let Op::Begin(_) = op {
                begun += 1;
                open.push(begun);
            }
            ops.push(op);
        }
        run_case(&mut out, &mut ctx, &sc, &ops, "rnd");
    }
    out.finish();
}
