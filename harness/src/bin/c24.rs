//! C24 — natural-language query translation never returns a mutating statement.
//!
//! A loopback HTTP stub answers the Ollama API (`POST /api/generate`) with generated response
//! texts; the public `NLQPipeline::text_to_cypher` is called against it. Every statement that
//! is handed back is judged by the property's own predicate on the implementation: the planner
//! must call it a read, and executing it through the *mutable* engine entry point on a store
//! must leave graph, index list, constraint list and hierarchy-index list unchanged.
//! The model (coq/model/Nlq.v) is compared on extract_cypher, is_safe_query and the verdict.
use samyama::graph::GraphStore;
use samyama::nlq::NLQPipeline;
use samyama::persistence::tenant::{LLMProvider, NLQConfig};
use samyama::query::{parse_query, QueryEngine, QueryExecutor};
use std::sync::{Arc, Mutex};
use tokio::io::{AsyncReadExt, AsyncWriteExt};
use vh::*;

fn build_store() -> GraphStore {
    let mut g = GraphStore::new();
    let a = g.create_node("Person");
    {
        let n = g.get_node_mut(a).unwrap();
        n.set_property("name", "Alice");
        n.set_property("x", 1i64);
    }
    let b = g.create_node("Person");
    {
        let n = g.get_node_mut(b).unwrap();
        n.set_property("name", "Bob");
        n.set_property("x", 2i64);
    }
    g.create_edge(a, b, "KNOWS").unwrap();
    g
}

fn show_batch(q: &str, g: &GraphStore) -> String {
    match parse_query(q) {
        Ok(ast) => match QueryExecutor::new(g).execute(&ast) {
            Ok(b) => {
                let mut rows: Vec<String> = b
                    .records
                    .iter()
                    .map(|r| b.columns.iter().map(|c| format!("{:?}", r.get(c))).collect::<Vec<_>>().join(","))
                    .collect();
                rows.sort();
                rows.join(" | ")
            }
            Err(e) => format!("ERR {}", e),
        },
        Err(e) => format!("PARSE {}", e),
    }
}

/// graph + index / constraint / hierarchy-index lists
fn dump(g: &GraphStore) -> String {
    let mut nodes: Vec<String> = g
        .all_nodes()
        .iter()
        .map(|n| {
            let mut labels: Vec<String> = n.labels.iter().map(|l| l.as_str().to_string()).collect();
            labels.sort();
            let mut props: Vec<String> =
                g.node_properties_full(n.id).iter().map(|(k, v)| format!("{}={:?}", k, v)).collect();
            props.sort();
            format!("N{}:{:?}{{{}}}", n.id.as_u64(), labels, props.join(","))
        })
        .collect();
    nodes.sort();
    let mut edges: Vec<String> = g
        .all_edges()
        .iter()
        .map(|e| {
            let mut props: Vec<String> = e.properties.iter().map(|(k, v)| format!("{}={:?}", k, v)).collect();
            props.sort();
            format!("E{}:{}-[{}]->{}{{{}}}", e.id.as_u64(), e.source.as_u64(), e.edge_type.as_str(), e.target.as_u64(), props.join(","))
        })
        .collect();
    edges.sort();
    format!(
        "{} | {} | idx[{}] | cons[{}] | hier[{}]",
        nodes.join(" "),
        edges.join(" "),
        show_batch("SHOW INDEXES", g),
        show_batch("SHOW CONSTRAINTS", g),
        show_batch("SHOW HIERARCHY INDEXES", g)
    )
}

const READ_PREFIX: &[&str] = &[
    "MATCH (n:Person)",
    "MATCH (n)",
    "match (n)",
    "MATCH (n)-[r:KNOWS]->(m)",
    "OPTIONAL MATCH (n:Person)",
    "MATCH (n:Person) WHERE n.x > 0",
    "MATCH (n:Person) WITH n",
    "UNWIND [1,2] AS i",
    "UNWIND [1] AS i MATCH (n:Person)",
    "WITH 1 AS i",
    "WITH 1 AS i MATCH (n)",
    "CALL db.labels() YIELD label",
    "MATCH (n:Person) WHERE n.name = 'SET' OR n.name = ' DELETE '",
];
const WRITE_CLAUSE: &[&str] = &[
    "CREATE (:X {v: 1})",
    "create (:X)",
    "CREATE (n)-[:R]->(:X)",
    "MERGE (z:X {k: 1})",
    "MERGE (z:X {k: 1}) ON CREATE SET z.c = 1",
    "SET n.x = 7",
    "set n.x = 7",
    "SET n:Extra",
    "SET n += {y: 1}",
    "REMOVE n.x",
    "REMOVE n:Person",
    "DELETE n",
    "DETACH DELETE n",
    "detach delete n",
    "FOREACH (k IN [1] | CREATE (:Y))",
    "FOREACH (k IN [1] | SET n.x = 9)",
    // the grammar's keywords have no word boundary
    "DETACHDELETE n",
    "DELETEn",
    "DETACH DELETEn",
    "SETn.x = 7",
];
const DDL: &[&str] = &[
    "CREATE INDEX ON :Person(name)",
    "DROP INDEX ON :Person(name)",
    "CREATE CONSTRAINT ON (p:Person) ASSERT p.name IS UNIQUE",
    "CREATE CONSTRAINT FOR (p:Person) REQUIRE p.name IS UNIQUE",
    "CREATE VECTOR INDEX vi FOR (p:Person) ON (p.emb) OPTIONS {dimensions: 2, similarity: 'cosine'}",
    "CREATE HIERARCHY INDEX h ON ()-[:KNOWS]->()",
    "DROP HIERARCHY INDEX h",
    "REBUILD HIERARCHY INDEX h",
    "CREATE (:X {v: 1})",
    "MERGE (z:X {k: 1})",
    "EXPLAIN CREATE (:X)",
    "PROFILE MATCH (n) DETACH DELETE n",
    "CALL { CREATE (:X) RETURN 1 AS one } RETURN one",
    "SHOW INDEXES",
];
const READ_TAIL: &[&str] = &["RETURN n", "RETURN n.name", "RETURN count(*)", "RETURN 1", "RETURN n.name ORDER BY n.name LIMIT 2", "return n"];
const READ_ONLY: &[&str] = &[
    "MATCH (n:Person) RETURN n.name",
    "MATCH (n) WHERE n.name = 'CREATE (x)' RETURN n",
    "MATCH (n) RETURN n.name // DELETE n",
    "MATCH (n) /* SET n.x = 1 */ RETURN n.x",
    "RETURN 'DETACH DELETE n'",
    "UNWIND [1,2] AS i RETURN i",
    "WITH 1 AS i RETURN i",
    "CALL db.labels()",
    "CALL db.labels() YIELD label RETURN label",
    "RETURN 1 UNION RETURN 2",
    "MATCH (n) RETURN n.x UNION MATCH (n) RETURN n.x",
    "MATCH (n:Person)\nWHERE n.x > 0\nRETURN n.name\nORDER BY n.name\nLIMIT 10",
    "OPTIONAL MATCH (n:Nope) RETURN n",
    "CALL { MATCH (n) RETURN n.x AS v } RETURN v",
    "MATCH (n) WHERE n.x IN [1,2] RETURN n.name AS name",
    "MATCH (n) RETURN n.x AS created",
    "MATCH (settings:Person) RETURN settings.name",
    "MATCH (n) WITH n.x AS set RETURN set",
    "MATCH (n) WHERE n.x > 0 RETURN n.x AS deleted ORDER BY deleted",
];
const PROSE_BEFORE: &[&str] = &["Here is the query:", "Sure! Use this:", "To answer the question,\nrun the following:", "", "Certainly.", "I would use MATCH for this:"];
const PROSE_AFTER: &[&str] = &["Hope this helps!", "This returns the names.", "", "Let me know if you need anything else.", "Note: DELETE is not used here."];
const LANG: &[&str] = &["cypher", "", "Cypher", "sql", "cypher ", "cypher\r"];

fn gen_statement(r: &mut Rng) -> (String, &'static str) {
    match r.below(10) {
        0..=4 => {
            // write clause after a read prefix
            let p = *r.pick(READ_PREFIX);
            let w = *r.pick(WRITE_CLAUSE);
            let sep = *r.pick(&[" ", "\n", "\t", "  ", " \n"]);
            let tail = if r.chance(1, 2) { format!("{}{}", r.pick(&[" ", "\n"]), r.pick(READ_TAIL)) } else { String::new() };
            (format!("{}{}{}{}", p, sep, w, tail), "write_after_read")
        }
        5 => ((*r.pick(DDL)).to_string(), "ddl_or_leading_write"),
        6 => {
            // two write clauses / union with a write branch
            let p = *r.pick(READ_PREFIX);
            if r.chance(1, 2) {
                (format!("{} {} {}", p, r.pick(WRITE_CLAUSE), r.pick(&["SET n.z = 1", "REMOVE n.x", "RETURN 1"])), "write_after_read")
            } else {
                (format!("MATCH (n) RETURN n.x AS v UNION MATCH (n) {} RETURN n.x AS v", r.pick(&["SET n.x = 5", "DETACH DELETE n", "REMOVE n.x"])), "union_write_branch")
            }
        }
        _ => {
            if r.chance(1, 3) {
                (format!("{} {}", r.pick(READ_PREFIX), r.pick(READ_TAIL)), "read")
            } else {
                ((*r.pick(READ_ONLY)).to_string(), "read")
            }
        }
    }
}

fn gen_response(r: &mut Rng) -> (String, &'static str, &'static str) {
    let (stmt, kind) = gen_statement(r);
    let (text, shape) = match r.below(10) {
        0 | 1 | 2 => (stmt.clone(), "bare"),
        3 | 4 => (format!("{}\n```{}\n{}\n```\n{}", r.pick(PROSE_BEFORE), r.pick(LANG), stmt, r.pick(PROSE_AFTER)), "fenced"),
        5 => (format!("```{}\n{}\n```", r.pick(LANG), stmt), "fenced"),
        6 => (format!("{}\n{}\n{}", r.pick(PROSE_BEFORE), stmt, r.pick(PROSE_AFTER)), "prose_lines"),
        7 => (format!("{}\n```{}\n{}", r.pick(PROSE_BEFORE), r.pick(LANG), stmt), "unclosed_fence"),
        8 => {
            // two blocks, a harmless one first or second
            let (other, _) = gen_statement(r);
            (format!("```cypher\n{}\n```\nor\n```cypher\n{}\n```", stmt, other), "two_blocks")
        }
        _ => {
            let t = match r.below(6) {
                0 => format!("  \n\t{}  \n", stmt),
                1 => format!("```{}```", stmt),
                2 => format!("```cypher {}```", stmt),
                3 => format!("{};", stmt),
                4 => format!("``` ```{}", stmt),
                _ => format!("{}\r\n{}", stmt.replace('\n', "\r\n"), r.pick(PROSE_AFTER)),
            };
            (t, "odd")
        }
    };
    (text, kind, shape)
}

fn malformed(r: &mut Rng) -> String {
    let frags = ["```", "`", "\n", "\r\n", " ", "MATCH", "RETURN", "DELETE", "n", "(", ")", "cypher", "é", "'", "\"", "//", "/*", "WITH", "\t", "``", "SET", "DETACH", ".x", "=", "1", "CREATE"];
    let k = r.range(0, 8);
    (0..k).map(|_| *r.pick(&frags)).collect::<Vec<_>>().join("")
}

async fn serve(listener: tokio::net::TcpListener, text: Arc<Mutex<String>>) {
    loop {
        let (mut sock, _) = match listener.accept().await {
            Ok(x) => x,
            Err(_) => continue,
        };
        let text = text.clone();
        tokio::spawn(async move {
            let mut buf: Vec<u8> = Vec::new();
            let mut tmp = [0u8; 8192];
            // read headers + body (Content-Length)
            loop {
                let n = match sock.read(&mut tmp).await {
                    Ok(0) | Err(_) => break,
                    Ok(n) => n,
                };
                buf.extend_from_slice(&tmp[..n]);
                if let Some(pos) = buf.windows(4).position(|w| w == b"\r\n\r\n") {
                    let head = String::from_utf8_lossy(&buf[..pos]).to_lowercase();
                    let cl = head
                        .lines()
                        .find_map(|l| l.strip_prefix("content-length:").map(|v| v.trim().parse::<usize>().unwrap_or(0)))
                        .unwrap_or(0);
                    if buf.len() >= pos + 4 + cl {
                        break;
                    }
                }
            }
            let body = serde_json::json!({ "response": text.lock().unwrap().clone() }).to_string();
            let resp = format!(
                "HTTP/1.1 200 OK\r\nContent-Type: application/json\r\nContent-Length: {}\r\nConnection: close\r\n\r\n{}",
                body.len(),
                body
            );
            let _ = sock.write_all(resp.as_bytes()).await;
            let _ = sock.shutdown().await;
        });
    }
}

fn main() {
    let args = parse_args();
    quiet_panics();
    let rt = tokio::runtime::Builder::new_multi_thread().worker_threads(2).enable_all().build().unwrap();
    let text = Arc::new(Mutex::new(String::new()));
    let listener = rt.block_on(async { tokio::net::TcpListener::bind("127.0.0.1:0").await.unwrap() });
    let port = listener.local_addr().unwrap().port();
    rt.spawn(serve(listener, text.clone()));
    let pipeline = NLQPipeline::new(NLQConfig {
        enabled: true,
        provider: LLMProvider::Ollama,
        model: "stub".to_string(),
        api_key: None,
        api_base_url: Some(format!("http://127.0.0.1:{}", port)),
        system_prompt: None,
    })
    .expect("pipeline");

    let mut out = Out::new(&args, "From Verif Require Import Nlq.", "Nlq.case", "Nlq.check_case", if args.thorough { 400 } else { 100 });
    out.rule = "responses delivered through a loopback stub of the Ollama API to NLQPipeline::text_to_cypher: every \
                write clause (CREATE, MERGE(+ON CREATE SET), SET property/label/map, REMOVE property/label, DELETE, DETACH \
                DELETE, FOREACH) after every read prefix (MATCH, OPTIONAL MATCH, WITH, UNWIND, CALL ... YIELD, keyword \
                case, space/tab/newline separators), index/constraint/hierarchy DDL, EXPLAIN/PROFILE/CALL{}/UNION \
                forms, read-only statements with write keywords in literals and comments; bare, fenced (language \
                tags), prose-wrapped, unclosed fence, two blocks, odd shapes; plus a malformed fragment stream. \
                Accepted statements are planned (is_write) and executed through execute_mut with a dump diff. \
                Non-trivial = response contains a statement from the generators."
        .to_string();

    let engine = QueryEngine::new();
    let empty = GraphStore::new();
    let mut responses: Vec<(String, &'static str, &'static str)> = Vec::new();
    // exhaustive cross product: every write clause after every read prefix, bare and fenced
    for p in READ_PREFIX {
        for w in WRITE_CLAUSE {
            responses.push((format!("{} {}", p, w), "write_after_read", "bare"));
            responses.push((format!("Here you go:\n```cypher\n{}\n{}\n```", p, w), "write_after_read", "fenced"));
        }
    }
    for d in DDL {
        responses.push((d.to_string(), "ddl_or_leading_write", "bare"));
        responses.push((format!("```\n{}\n```", d), "ddl_or_leading_write", "fenced"));
    }
    for q in READ_ONLY {
        responses.push((q.to_string(), "read", "bare"));
        responses.push((format!("```cypher\n{}\n```\nDone.", q), "read", "fenced"));
    }
    // write keyword glued to other text, no read-keyword line, no fence (parses as DELETE <variable>)
    for m in ["DELETEMATCH", "\r\nDELETEcypher", "DELETEn\n\r\n\t//'", "RETURN DELETE", "SETn.x=1", "DETACHDELETEn", "RETURNDELETE", "WITH DELETE RETURN 1"] {
        responses.push((m.to_string(), "malformed", "malformed"));
    }
    let n = if args.thorough { 20000 } else { 1500 };
    for c in 0..n {
        let mut r = Rng::for_case(args.seed, c);
        if r.chance(1, 12) {
            responses.push((malformed(&mut r), "malformed", "malformed"));
        } else {
            responses.push(gen_response(&mut r));
        }
    }

    for (resp, kind, shape) in &responses {
        let idx = out.next_index();
        if !out.wants(idx) {
            out.skip();
            continue;
        }
        let extracted = match catch(|| NLQPipeline::extract_cypher(resp)) {
            Ok(s) => s,
            Err(p) => {
                let i = out.case(format!("({}, [], false, None, false, None)", g_bytes(resp.as_bytes())), format!("{:?}", resp), true);
                out.fail(i, &format!("{:?}", resp), &format!("extract_cypher panicked: {}", p), None);
                continue;
            }
        };
        let parsed = parse_query(&extracted);
        let parses = parsed.is_ok();
        let w = parsed.as_ref().ok().and_then(|ast| QueryEngine::query_is_write(ast, &empty));
        let safe = pipeline.is_safe_query(&extracted);
        *text.lock().unwrap() = resp.clone();
        let verdict = rt.block_on(pipeline.text_to_cypher("question", "schema"));
        let outcome: Option<String> = match &verdict {
            Ok(s) => Some(s.clone()),
            Err(samyama::nlq::NLQError::ValidationError(_)) => None,
            Err(e) => panic!("stub transport failed: {}", e),
        };
        out.count(&format!("kind_{}", kind));
        out.count(&format!("shape_{}", shape));
        let human = format!("response={:?} extracted={:?} outcome={:?}", resp, extracted, outcome);
        let mut bad: Option<String> = None;
        if let Some(stmt) = &outcome {
            out.count("accepted");
            // the property's predicate on the implementation
            match parse_query(stmt) {
                Err(e) => bad = Some(format!("accepted statement does not parse: {}", e)),
                Ok(ast) => {
                    let mut g = build_store();
                    let before = dump(&g);
                    match QueryEngine::query_is_write(&ast, &g) {
                        Some(false) => {}
                        other => bad = Some(format!("accepted statement is not planned as a read: is_write = {:?}", other)),
                    }
                    let r1 = engine.execute_mut(stmt, &mut g, "default");
                    let after = dump(&g);
                    if before != after && bad.is_none() {
                        bad = Some(format!("executing the accepted statement changed the store: before {} / after {}", before, after));
                    }
                    if r1.is_ok() {
                        out.count("accepted_and_executed");
                    }
                }
            }
        } else {
            out.count("rejected");
            if w == Some(true) {
                out.count("rejected_write");
                if extracted.trim().to_uppercase().starts_with("MATCH")
                    || extracted.trim().to_uppercase().starts_with("UNWIND")
                    || extracted.trim().to_uppercase().starts_with("WITH")
                    || extracted.trim().to_uppercase().starts_with("CALL")
                {
                    out.count("rejected_write_with_read_prefix");
                }
            }
        }
        let g = format!(
            "({}, {}, {}, {}, {}, {})",
            g_bytes(resp.as_bytes()),
            g_bytes(extracted.as_bytes()),
            g_bool(parses),
            g_opt(w.map(|b| g_bool(b).to_string())),
            g_bool(safe),
            g_opt(outcome.as_ref().map(|s| g_bytes(s.as_bytes())))
        );
        let i = out.case(g, human.clone(), *kind != "malformed");
        if let Some(b) = bad {
            out.fail(i, &human, &b, None);
        }
    }
    out.finish();
}
