//! C25 — the Cypher parser never panics and never silently changes numbers.
//!
//! (i)  boundary numerals in every numeric position; the number is read back from the AST and
//!      compared with the written numeral (decimal-string comparison, independent of the model);
//!      the observation is also printed as a Gallina case for coq/model/Numeral.v.
//! (ii) grammar-generated queries and character-level mutations under `catch` — any panic is a
//!      violation; deep nesting is probed in a child process (a stack overflow aborts).
use samyama::graph::PropertyValue;
use samyama::query::ast::*;
use samyama::query::parser::parse_query;
use vh::*;

const KNOWN_DEEP: &str = "deep-nesting-stack-overflow";

// ---------------------------------------------------------------- AST readers
#[derive(Default, Debug)]
struct Nums {
    ints: Vec<i128>,
    floats: Vec<f64>,
    other: usize,
}

fn pv(v: &PropertyValue, sign: i128, n: &mut Nums) {
    match v {
        PropertyValue::Integer(i) => n.ints.push(sign * (*i as i128)),
        PropertyValue::Float(f) => n.floats.push(if sign < 0 { -*f } else { *f }),
        PropertyValue::Array(a) => a.iter().for_each(|x| pv(x, sign, n)),
        PropertyValue::Map(m) => m.values().for_each(|x| pv(x, sign, n)),
        _ => {}
    }
}

fn ex(e: &Expression, sign: i128, n: &mut Nums) {
    match e {
        Expression::Literal(v) => pv(v, sign, n),
        Expression::Unary { op: UnaryOp::Minus, expr } => ex(expr, -sign, n),
        Expression::Unary { expr, .. } => ex(expr, sign, n),
        Expression::Binary { left, right, .. } => {
            ex(left, sign, n);
            ex(right, sign, n)
        }
        Expression::Index { expr, index } => {
            ex(expr, sign, n);
            ex(index, sign, n)
        }
        Expression::ListSlice { expr, start, end } => {
            ex(expr, sign, n);
            if let Some(s) = start {
                ex(s, sign, n)
            }
            if let Some(s) = end {
                ex(s, sign, n)
            }
        }
        Expression::Function { args, .. } => args.iter().for_each(|a| ex(a, sign, n)),
        Expression::ListExpr(xs) => xs.iter().for_each(|a| ex(a, sign, n)),
        Expression::MapExpr(xs) => xs.iter().for_each(|(_, a)| ex(a, sign, n)),
        Expression::Variable(_) | Expression::Property { .. } | Expression::Parameter(_) => {}
        _ => n.other += 1,
    }
}

fn node_nums(np: &NodePattern, n: &mut Nums) {
    if let Some(p) = &np.properties {
        p.values().for_each(|v| pv(v, 1, n));
    }
    if let Some(p) = &np.property_exprs {
        p.values().for_each(|v| ex(v, 1, n));
    }
}

fn pattern_nums(p: &Pattern, n: &mut Nums) {
    for path in &p.paths {
        node_nums(&path.start, n);
        for s in &path.segments {
            node_nums(&s.node, n);
        }
    }
}

/// every number stored anywhere in the positions the templates use
fn query_nums(q: &Query) -> Nums {
    let mut n = Nums::default();
    if let Some(r) = &q.return_clause {
        r.items.iter().for_each(|i| ex(&i.expression, 1, &mut n));
    }
    if let Some(w) = &q.where_clause {
        ex(&w.predicate, 1, &mut n);
    }
    if let Some(u) = &q.unwind_clause {
        ex(&u.expression, 1, &mut n);
    }
    if let Some(c) = &q.create_clause {
        pattern_nums(&c.pattern, &mut n);
    }
    for m in &q.match_clauses {
        pattern_nums(&m.pattern, &mut n);
    }
    n
}

fn first_length(q: &Query) -> Option<Option<LengthPattern>> {
    let p = q.match_clauses.first()?.pattern.paths.first()?;
    Some(p.segments.first()?.edge.length.clone())
}

// ---------------------------------------------------------------- independent numeral reader
/// sign, radix, digit string (lower-case, leading zeros stripped; "" for zero) of an `integer` token
fn canon_int(tok: &str) -> Option<(bool, u32, String)> {
    let (neg, body) = match tok.strip_prefix('-') {
        Some(r) => (true, r),
        None => (false, tok),
    };
    let (radix, digits) = if body.len() > 2 && (body.starts_with("0x") || body.starts_with("0X")) {
        (16, &body[2..])
    } else if body.len() > 2 && (body.starts_with("0o") || body.starts_with("0O")) {
        (8, &body[2..])
    } else {
        (10, body)
    };
    if digits.is_empty() || !digits.chars().all(|c| c.is_digit(radix)) {
        return None;
    }
    Some((neg, radix, digits.trim_start_matches('0').to_ascii_lowercase()))
}

/// does the stored value `v` equal the written numeral? (string comparison in the numeral's radix)
fn same_number(tok: &str, v: i128) -> bool {
    let Some((neg, radix, digits)) = canon_int(tok) else { return false };
    let mag = v.unsigned_abs();
    let shown = match radix {
        16 => format!("{:x}", mag),
        8 => format!("{:o}", mag),
        _ => format!("{}", mag),
    };
    let shown = shown.trim_start_matches('0').to_string();
    if shown != digits {
        return false;
    }
    digits.is_empty() || (neg == (v < 0))
}

fn is_grammar_float(tok: &str) -> bool {
    let b = tok.strip_prefix('-').unwrap_or(tok).as_bytes();
    let mut i = 0;
    let digits = |i: &mut usize| {
        let s = *i;
        while *i < b.len() && b[*i].is_ascii_digit() {
            *i += 1;
        }
        *i - s
    };
    let ni = digits(&mut i);
    let mut nf = 0;
    let mut dot = false;
    if i < b.len() && b[i] == b'.' {
        dot = true;
        i += 1;
        nf = digits(&mut i);
        if nf == 0 {
            return false;
        }
    }
    let mut exp = false;
    if i < b.len() && (b[i] == b'e' || b[i] == b'E') {
        exp = true;
        i += 1;
        if i < b.len() && (b[i] == b'+' || b[i] == b'-') {
            i += 1;
        }
        if digits(&mut i) == 0 {
            return false;
        }
    }
    i == b.len() && ((ni > 0 && dot && nf > 0) || (ni > 0 && !dot && exp) || (ni == 0 && dot))
}

// ---------------------------------------------------------------- numeral pools
fn rand_digits(r: &mut Rng, radix: u32, len: usize) -> String {
    (0..len).map(|_| std::char::from_digit(r.below(radix as u64) as u32, radix).unwrap()).collect()
}

fn int_pool(r: &mut Rng, extra: usize) -> Vec<String> {
    let mut v: Vec<String> = [
        "0", "00", "1", "7", "12", "007", "255", "4294967295", "4294967296",
        "9223372036854775806", "9223372036854775807", "9223372036854775808", "9223372036854775809",
        "18446744073709551614", "18446744073709551615", "18446744073709551616", "18446744073709551617",
        "170141183460469231731687303715884105727", "170141183460469231731687303715884105728",
        "170141183460469231731687303715884105729", "340282366920938463463374607431768211455",
        "340282366920938463463374607431768211456", "1234567890123456789012345678901234567890",
        "9999999999999999999999999999999999999999",
        "0000000000000000000000000000000000000000009223372036854775807",
        "0000000000000000000000000000000000000000009223372036854775808",
        "0x0", "0x1F", "0X1f", "0xff", "0x7FFFFFFFFFFFFFFF", "0x8000000000000000", "0x8000000000000001",
        "0xFFFFFFFFFFFFFFFF", "0x10000000000000000", "0x7fffffffffffffffffffffffffffffff",
        "0x80000000000000000000000000000000", "0xffffffffffffffffffffffffffffffff",
        "0x100000000000000000000000000000000", "0x000000000000000000000000000000000000000001",
        "0xabcdef", "0XABCDEF", "0o0", "0o17", "0O777", "0o777777777777777777777",
        "0o1000000000000000000000", "0o1000000000000000000001", "0o1777777777777777777777",
        "0o2000000000000000000000", "0o0000000000000000000000000000000000000000000007",
        "0o3777777777777777777777777777777777777777777", "0o4000000000000000000000000000000000000000000",
    ]
    .iter()
    .map(|s| s.to_string())
    .collect();
    for _ in 0..extra {
        let k = r.below(10);
        let s = match k {
            0..=4 => {
                let len = r.range(1, 45) as usize;
                let mut d = rand_digits(r, 10, len);
                if r.chance(1, 4) {
                    d = format!("{}{}", "0".repeat(r.range(1, 30) as usize), d);
                }
                d
            }
            5 | 6 => {
                // close to a boundary
                let base: u128 = *r.pick(&[1u128 << 63, 1u128 << 64, 1u128 << 32, 1u128 << 31, (1u128 << 127)]);
                let d = r.below(5) as u128;
                format!("{}", if r.chance(1, 2) { base + d } else { base - d })
            }
            7 | 8 => format!("{}{}", if r.chance(1, 2) { "0x" } else { "0X" }, {
                let len = r.range(1, 36) as usize;
                let s = rand_digits(r, 16, len);
                if r.chance(1, 2) { s.to_uppercase() } else { s }
            }),
            _ => format!("{}{}", if r.chance(1, 2) { "0o" } else { "0O" }, {
                let len = r.range(1, 46) as usize;
                rand_digits(r, 8, len)
            }),
        };
        v.push(s);
    }
    v
}

fn float_pool(r: &mut Rng, extra: usize) -> Vec<String> {
    let max = "179769313486231570814527423731704356798070567525844996598917476803157260780028538760589558632766878171540458953514382464234321326889464182768467546703537516986049910576551282076245490090389328944075868508455133942304583236903222948165808559332123348274797826204144723168738177180919299881250404026184124858368";
    // 2^1024 - 2^970: the smallest decimal that rounds to infinity
    let over = "179769313486231580793728971405303415079934132710037826936173778980444968292764750946649017977587207096330286416692887910946555547851940402630657488671505820681908902000708383676273854845817711531764475730270069855571366959622842914819860834936475292719074168444365510704342711559699508093042880177904174497792";
    let under = "179769313486231580793728971405303415079934132710037826936173778980444968292764750946649017977587207096330286416692887910946555547851940402630657488671505820681908902000708383676273854845817711531764475730270069855571366959622842914819860834936475292719074168444365510704342711559699508093042880177904174497791";
    let mut v: Vec<String> = [
        "1.5", ".5", "0.0", "0.5", "1e5", "1E5", "1e+5", "1e-5", "1.0e10", "1.25E-3", "1e308", "1e309", "1e400",
        "1.7976931348623157e308", "1.7976931348623158e308", "1.797693134862315807e308",
        "1.797693134862315808e308", "1.79769313486231580793728971405303e308",
        "1.79769313486231580793728971405304e308", "17976931348623157e292", "17976931348623159e292",
        "4.9e-324", "2.4e-324", "1e-400", "0e999999999", "0.0e99999999999999999999", "1e99999999999999999999",
        "1e-99999999999999999999", "0.000001e99999999999999999999", "123456789012345678901234567890.123456789",
        "00001.5", "1.0", "3.14159", ".0", ".0e5", "9007199254740993.0", "0.1", "1.3", "16777217.0",
        "0.30000000000000004", "5e-324", "2.2250738585072014e-308", "1e23", "8.5e22",
    ]
    .iter()
    .map(|s| s.to_string())
    .collect();
    v.push(format!("{}.0", max));
    v.push(format!("{}.0", over));
    v.push(format!("{}.0", under));
    v.push(format!("{}.9999", under));
    v.push(format!("{}e0", over));
    v.push(format!("0.{}e309", over));
    v.push(format!("0.{}e309", under));
    v.push(format!("0.{}e310", under));
    v.push(format!("0.{}e308", over));
    for _ in 0..extra {
        let il = r.below(20) as usize;
        let fl = r.range(if il == 0 { 1 } else { 0 }, 20) as usize;
        let mut s = rand_digits(r, 10, il);
        if fl > 0 {
            s.push('.');
            s.push_str(&rand_digits(r, 10, fl));
        }
        if fl == 0 || r.chance(1, 2) {
            let e: i64 = match r.below(4) {
                0 => r.range(0, 30) as i64,
                1 => r.range(280, 330) as i64 - il as i64,
                2 => -(r.range(0, 400) as i64),
                _ => r.range(0, 5000) as i64,
            };
            s.push_str(&format!("{}{}", if r.chance(1, 2) { "e" } else { "E" }, e));
        }
        v.push(s);
    }
    v
}

// ---------------------------------------------------------------- running the parser
enum Res {
    Ok(Query),
    Err,
    Panic(String),
}

fn run(q: &str) -> Res {
    let qs = q.to_string();
    match catch(move || parse_query(&qs)) {
        Ok(Ok(a)) => Res::Ok(a),
        Ok(Err(_)) => Res::Err,
        Err(p) => Res::Panic(p),
    }
}

fn g_outcome(o: &Result<Option<String>, bool>) -> String {
    // Ok(Some(term)) => Ok term ; Err(false) => Err ; Err(true) => Panic
    match o {
        Ok(Some(t)) => format!("(Ok {})", t),
        Ok(None) => unreachable!(),
        Err(false) => "Err".to_string(),
        Err(true) => "Panic".to_string(),
    }
}

fn g_optn(o: Option<usize>) -> String {
    match o {
        Some(n) => format!("(Some {})", n),
        None => "None".to_string(),
    }
}

struct Ctx {
    out: Out,
}

impl Ctx {
    /// one integer-literal position: `tok` is the text that reaches parse_integer_literal
    fn int_case(&mut self, query: &str, tok: &str, pos: &str) {
        let idx = self.out.next_index();
        if !self.out.wants(idx) {
            self.out.skip();
            return;
        }
        let human = format!("int[{}] {:?}", pos, query);
        let (obs, bad): (Result<Option<String>, bool>, Option<String>) = match run(query) {
            Res::Panic(p) => (Err(true), Some(format!("panic: {}", p))),
            Res::Err => {
                self.out.count("int_rejected");
                (Err(false), None)
            }
            Res::Ok(ast) => {
                let n = query_nums(&ast);
                if n.ints.len() == 1 && n.floats.is_empty() && n.other == 0 {
                    let v = n.ints[0];
                    self.out.count("int_accepted");
                    let bad = if same_number(tok, v) {
                        None
                    } else {
                        Some(format!("accepted, but the AST holds {} for the numeral {}", v, tok))
                    };
                    (Ok(Some(g_z(v))), bad)
                } else {
                    (Ok(Some("0%Z".into())), Some(format!("accepted, but the AST holds {:?} for the single numeral {}", n, tok)))
                }
            }
        };
        self.out.case(format!("CInt {} {}", g_bytes(tok.as_bytes()), g_outcome(&obs)), human.clone(), true);
        if let Some(d) = bad {
            self.out.fail(idx, &human, &d, None);
        }
    }

    /// one SKIP/LIMIT position; `get` reads the count back from the AST
    fn count_case(&mut self, query: &str, tok: &str, pos: &str, get: &dyn Fn(&Query) -> Option<usize>) {
        let idx = self.out.next_index();
        if !self.out.wants(idx) {
            self.out.skip();
            return;
        }
        let human = format!("count[{}] {:?}", pos, query);
        let (obs, bad) = match run(query) {
            Res::Panic(p) => ("Panic".to_string(), Some(format!("panic: {}", p))),
            Res::Err => {
                self.out.count("count_rejected");
                ("Err".to_string(), None)
            }
            Res::Ok(ast) => match get(&ast) {
                Some(n) => {
                    self.out.count("count_accepted");
                    let bad = if same_number(tok, n as i128) {
                        None
                    } else {
                        Some(format!("accepted, but the AST holds {} for the count {}", n, tok))
                    };
                    (format!("(Ok (Some {}))", n), bad)
                }
                None => ("(Ok None)".to_string(), Some(format!("accepted, but the count {} was dropped (no SKIP/LIMIT in the AST)", tok))),
            },
        };
        self.out.case(format!("CCount {} {}", g_bytes(tok.as_bytes()), obs), human.clone(), true);
        if let Some(d) = bad {
            self.out.fail(idx, &human, &d, None);
        }
    }

    /// one variable-length pattern; `lo`/`hi` tokens, skipped text ws1/ws2, form kind
    fn len_case(&mut self, kind: u8, lo: &str, ws1: &str, ws2: &str, hi: &str, pre: &str, r: &mut Rng) {
        // kind 0: *   1: *lo   2: lo..hi  3: ..hi  4: lo..  5: ..
        let (text, form) = match kind {
            0 => (String::new(), "LpStar".to_string()),
            1 => (lo.to_string(), format!("(LpExact {})", g_bytes(lo.as_bytes()))),
            _ => {
                let has_lo = kind == 2 || kind == 4;
                let has_hi = kind == 2 || kind == 3;
                let t = format!(
                    "{}{}..{}{}",
                    if has_lo { lo } else { "" },
                    if has_lo { ws1 } else { "" },
                    if has_hi { ws2 } else { "" },
                    if has_hi { hi } else { "" }
                );
                let f = format!(
                    "(LpRange {} {} {})",
                    if has_lo { format!("(Some ({}, {}))", g_bytes(lo.as_bytes()), g_bytes(ws1.as_bytes())) } else { "None".into() },
                    g_bytes(if has_hi { ws2.as_bytes() } else { b"" }),
                    if has_hi { format!("(Some {})", g_bytes(hi.as_bytes())) } else { "None".into() }
                );
                (t, f)
            }
        };
        let query = match r.below(4) {
            0 => format!("MATCH (a)-[*{}{}]->(b) RETURN a", pre, text),
            1 => format!("MATCH (a)-[r:KNOWS*{}{}]->(b) RETURN a", pre, text),
            2 => format!("MATCH (a)<-[:A|B *{}{} {{w: 'x'}}]-(b) RETURN b", pre, text),
            _ => format!("MATCH p = shortestPath((a)-[:T*{}{}]-(b)) RETURN p", pre, text),
        };
        let idx = self.out.next_index();
        if !self.out.wants(idx) {
            self.out.skip();
            return;
        }
        let human = format!("len[{}] {:?}", kind, query);
        let want = |tok: &str, got: Option<usize>| -> bool { got.map_or(false, |g| same_number(tok, g as i128)) };
        let (obs, bad) = match run(&query) {
            Res::Panic(p) => ("Panic".to_string(), Some(format!("panic: {}", p))),
            Res::Err => {
                self.out.count("len_rejected");
                ("Err".to_string(), None)
            }
            Res::Ok(ast) => match first_length(&ast) {
                Some(Some(lp)) => {
                    self.out.count("len_accepted");
                    let ok = match kind {
                        0 | 5 => lp.min == Some(1) && lp.max.is_none(),
                        1 => want(lo, lp.min) && want(lo, lp.max),
                        2 => want(lo, lp.min) && want(hi, lp.max),
                        3 => lp.min == Some(1) && want(hi, lp.max),
                        _ => want(lo, lp.min) && lp.max.is_none(),
                    };
                    if kind >= 2 && (!ws1.is_empty() || !ws2.is_empty() || !pre.is_empty()) {
                        self.out.count("len_accepted_with_skipped_text");
                    }
                    let bad = if ok { None } else { Some(format!("accepted, but the AST holds min={:?} max={:?} for *{}", lp.min, lp.max, text)) };
                    (format!("(Ok ({}, {}))", g_optn(lp.min), g_optn(lp.max)), bad)
                }
                other => ("(Ok (None, None))".to_string(), Some(format!("accepted, but the length pattern is missing from the AST: {:?}", other))),
            },
        };
        self.out.case(format!("CLen {} {}", form, obs), human.clone(), true);
        if let Some(d) = bad {
            self.out.fail(idx, &human, &d, None);
        }
    }

    fn float_case(&mut self, query: &str, tok: &str, neg_outside: bool, pos: &str) {
        let idx = self.out.next_index();
        if !self.out.wants(idx) {
            self.out.skip();
            return;
        }
        let human = format!("float[{}] {:?}", pos, query);
        let (acc, pan, bad) = match run(query) {
            Res::Panic(p) => (false, true, Some(format!("panic: {}", p))),
            Res::Err => {
                self.out.count("float_rejected");
                (false, false, None)
            }
            Res::Ok(ast) => {
                let n = query_nums(&ast);
                self.out.count("float_accepted");
                // reference: the correctly rounded binary64 of the written numeral
                let want: f64 = tok.parse::<f64>().unwrap_or(f64::NAN) * if neg_outside { -1.0 } else { 1.0 };
                let bad = if n.floats.len() != 1 || !n.ints.is_empty() || n.other != 0 {
                    Some(format!("accepted, but the AST holds {:?} for the single numeral {}", n, tok))
                } else if !n.floats[0].is_finite() {
                    Some(format!("accepted, but the AST holds {} for the numeral {}", n.floats[0], tok))
                } else if n.floats[0].to_bits() != want.to_bits() {
                    Some(format!("accepted, but the AST holds {:e} and the numeral {} is {:e}", n.floats[0], tok, want))
                } else {
                    None
                };
                (true, false, bad)
            }
        };
        self.out.case(
            format!("CFloat {} {} {}", g_bytes(tok.as_bytes()), g_bool(acc), g_bool(pan)),
            human.clone(),
            true,
        );
        if let Some(d) = bad {
            self.out.fail(idx, &human, &d, None);
        }
    }

    /// whole-parser robustness: only a panic produces a case (and a failure)
    fn fuzz(&mut self, q: &str, what: &str) {
        self.out.count("fuzz_inputs");
        match run(q) {
            Res::Ok(_) => self.out.count("fuzz_accepted"),
            Res::Err => self.out.count("fuzz_rejected"),
            Res::Panic(p) => {
                let human = format!("fuzz[{}] {:?}", what, q);
                let idx = self.out.case(format!("CNoPanic {} true", g_bytes(q.as_bytes())), human.clone(), true);
                self.out.fail(idx, &human, &format!("panic: {}", p), None);
            }
        }
    }
}

// ---------------------------------------------------------------- grammar-based generation
fn gen_ident(r: &mut Rng) -> String {
    r.pick(&["n", "m", "a", "b", "x", "row", "_v1", "person", "count", "end", "case", "order", "in", "nOt"]).to_string()
}
fn gen_num(r: &mut Rng, pool: &[String]) -> String {
    if r.chance(3, 4) { r.pick(&["0", "1", "2", "42", "3.5", "1e3", "0x1F", "0o7", ".5"]).to_string() } else { r.pick(pool).clone() }
}
fn gen_str(r: &mut Rng) -> String {
    r.pick(&["'a'", "\"b\"", "'it\\'s'", "\"q\\\"q\"", "'\\u0041'", "'\\u00'", "'\\\\'", "''", "'日本語'", "'\\n\\t'", "'a/*b*/c'", "\"//x\""]).to_string()
}
fn gen_expr(r: &mut Rng, d: u32, pool: &[String]) -> String {
    if d == 0 || r.chance(1, 3) {
        return match r.below(9) {
            0 | 1 => gen_num(r, pool),
            2 => gen_str(r),
            3 => gen_ident(r),
            4 => format!("{}.{}", gen_ident(r), gen_ident(r)),
            5 => format!("${}", gen_ident(r)),
            6 => r.pick(&["true", "FALSE", "null", "NULL"]).to_string(),
            7 => format!("{}.{}.{}", gen_ident(r), gen_ident(r), gen_ident(r)),
            _ => "count(*)".to_string(),
        };
    }
    let d1 = d - 1;
    match r.below(22) {
        0 => format!("({})", gen_expr(r, d1, pool)),
        1 => format!("-{}", gen_expr(r, d1, pool)),
        2 => format!("NOT {}", gen_expr(r, d1, pool)),
        3 | 4 | 5 => {
            let op = *r.pick(&["+", "-", "*", "/", "%", "^", "=", "<>", "<", ">", "<=", ">=", " AND ", " OR ", " XOR ", " IN ", " STARTS WITH ", " ENDS WITH ", " CONTAINS ", "=~", "!=", "=="]);
            format!("{}{}{}", gen_expr(r, d1, pool), op, gen_expr(r, d1, pool))
        }
        6 => format!("[{}]", (0..r.below(4)).map(|_| gen_expr(r, d1, pool)).collect::<Vec<_>>().join(", ")),
        7 => format!("{{k: {}, `j`: {}}}", gen_expr(r, d1, pool), gen_expr(r, d1, pool)).replace('`', ""),
        8 => format!("{}({})", r.pick(&["abs", "toInteger", "size", "coalesce", "range", "sum", "collect", "date"]), (0..r.below(3)).map(|_| gen_expr(r, d1, pool)).collect::<Vec<_>>().join(",")),
        9 => format!("{}[{}]", gen_expr(r, d1, pool), gen_expr(r, d1, pool)),
        10 => format!("{}[{}..{}]", gen_expr(r, d1, pool), if r.chance(1, 2) { gen_num(r, pool) } else { String::new() }, if r.chance(1, 2) { gen_num(r, pool) } else { String::new() }),
        11 => format!("CASE WHEN {} THEN {} ELSE {} END", gen_expr(r, d1, pool), gen_expr(r, d1, pool), gen_expr(r, d1, pool)),
        12 => format!("CASE {} WHEN {} THEN {} END", gen_expr(r, d1, pool), gen_expr(r, d1, pool), gen_expr(r, d1, pool)),
        13 => format!("[x IN {} WHERE {} | {}]", gen_expr(r, d1, pool), gen_expr(r, d1, pool), gen_expr(r, d1, pool)),
        14 => format!("{}(x IN {} WHERE {})", r.pick(&["all", "any", "none", "single"]), gen_expr(r, d1, pool), gen_expr(r, d1, pool)),
        15 => format!("reduce(acc = {}, x IN {} | {})", gen_expr(r, d1, pool), gen_expr(r, d1, pool), gen_expr(r, d1, pool)),
        16 => format!("{} IS {}NULL", gen_expr(r, d1, pool), if r.chance(1, 2) { "NOT " } else { "" }),
        17 => format!("EXISTS {{ MATCH {} WHERE {} }}", gen_pattern(r, pool), gen_expr(r, d1, pool)),
        18 => format!("[{} | {}]", gen_path(r, pool), gen_expr(r, d1, pool)),
        19 => format!("{}:{}", gen_ident(r), gen_ident(r)),
        20 => format!("{}.{}", gen_expr(r, d1, pool), gen_ident(r)),
        _ => format!("count(DISTINCT {})", gen_expr(r, d1, pool)),
    }
}
fn gen_props(r: &mut Rng, pool: &[String]) -> String {
    if r.chance(1, 2) {
        return String::new();
    }
    format!(" {{{}}}", (0..r.range(1, 3)).map(|_| format!("{}: {}", gen_ident(r), if r.chance(2, 3) { let s = if r.chance(1, 3) { "-" } else { "" }; format!("{}{}", s, gen_num(r, pool)) } else { gen_expr(r, 1, pool) })).collect::<Vec<_>>().join(", "))
}
fn gen_node(r: &mut Rng, pool: &[String]) -> String {
    format!("({}{}{})", if r.chance(2, 3) { gen_ident(r) } else { String::new() }, if r.chance(1, 2) { format!(":{}", gen_ident(r)) } else { String::new() }, gen_props(r, pool))
}
fn gen_len(r: &mut Rng, pool: &[String]) -> String {
    let ws = |r: &mut Rng| r.pick(&["", "", " ", "/**/", "\t"]).to_string();
    match r.below(8) {
        0 | 1 => String::new(),
        2 => "*".to_string(),
        3 => format!("*{}", gen_num(r, pool)),
        4 => format!("*{}{}..{}{}", gen_num(r, pool), ws(r), ws(r), gen_num(r, pool)),
        5 => format!("*{}..{}", ws(r), gen_num(r, pool)),
        6 => format!("*{}{}..", gen_num(r, pool), ws(r)),
        _ => "*..".to_string(),
    }
}
fn gen_edge(r: &mut Rng, pool: &[String]) -> String {
    let detail = if r.chance(1, 5) {
        String::new()
    } else {
        format!("[{}{}{}{}]", if r.chance(1, 2) { gen_ident(r) } else { String::new() }, if r.chance(1, 2) { format!(":{}{}", gen_ident(r), if r.chance(1, 3) { "|B" } else { "" }) } else { String::new() }, gen_len(r, pool), gen_props(r, pool))
    };
    match r.below(3) {
        0 => format!("<-{}-", detail),
        1 => format!("-{}->", detail),
        _ => format!("-{}-", detail),
    }
}
fn gen_path(r: &mut Rng, pool: &[String]) -> String {
    let mut s = gen_node(r, pool);
    for _ in 0..r.range(1, 2) {
        s.push_str(&gen_edge(r, pool));
        s.push_str(&gen_node(r, pool));
    }
    s
}
fn gen_pattern(r: &mut Rng, pool: &[String]) -> String {
    let mut v = Vec::new();
    for _ in 0..r.range(1, 2) {
        let p = if r.chance(1, 3) { gen_node(r, pool) } else { gen_path(r, pool) };
        v.push(match r.below(6) {
            0 => format!("p = {}", p),
            1 => format!("shortestPath({})", p),
            _ => p,
        });
    }
    v.join(", ")
}
fn gen_tail(r: &mut Rng, pool: &[String]) -> String {
    let mut s = String::new();
    if r.chance(1, 3) {
        s.push_str(&format!(" ORDER BY {} {}", gen_expr(r, 1, pool), r.pick(&["", "ASC", "DESC"])));
    }
    if r.chance(1, 2) {
        s.push_str(&format!(" SKIP {}", gen_num(r, pool)));
    }
    if r.chance(1, 2) {
        s.push_str(&format!(" LIMIT {}", gen_num(r, pool)));
    }
    s
}
fn gen_return(r: &mut Rng, pool: &[String]) -> String {
    format!(" RETURN {}{}{}", if r.chance(1, 5) { "DISTINCT " } else { "" }, (0..r.range(1, 3)).map(|i| if r.chance(1, 8) { "*".to_string() } else { format!("{} AS c{}", gen_expr(r, 3, pool), i) }).collect::<Vec<_>>().join(", "), gen_tail(r, pool))
}
fn gen_query(r: &mut Rng, pool: &[String]) -> String {
    let mut q = String::new();
    if r.chance(1, 10) {
        q.push_str(*r.pick(&["EXPLAIN ", "PROFILE "]));
    }
    let n = r.range(1, 4);
    for _ in 0..n {
        let c = match r.below(14) {
            0 | 1 | 2 => format!("MATCH {}", gen_pattern(r, pool)),
            3 => format!("OPTIONAL MATCH {}", gen_pattern(r, pool)),
            4 => format!("WHERE {}", gen_expr(r, 3, pool)),
            5 => format!("WITH {} AS w{}", gen_expr(r, 2, pool), gen_tail(r, pool)),
            6 => format!("UNWIND {} AS u", gen_expr(r, 2, pool)),
            7 => format!("CREATE {}", gen_pattern(r, pool)),
            8 => format!("MERGE {} ON CREATE SET n.x = {}", gen_path(r, pool), gen_expr(r, 2, pool)),
            9 => format!("SET n.{} = {}", gen_ident(r), gen_expr(r, 2, pool)),
            10 => format!("{}DELETE {}", if r.chance(1, 2) { "DETACH " } else { "" }, gen_ident(r)),
            11 => format!("CALL db.{}({}) YIELD a", gen_ident(r), gen_expr(r, 1, pool)),
            12 => format!("FOREACH (i IN {} | SET n.x = {})", gen_expr(r, 1, pool), gen_expr(r, 1, pool)),
            _ => format!("REMOVE n.{}", gen_ident(r)),
        };
        q.push_str(&c);
        q.push(' ');
    }
    if r.chance(4, 5) {
        q.push_str(&gen_return(r, pool));
    }
    if r.chance(1, 12) {
        q.push_str(&format!(" UNION {}RETURN {}", if r.chance(1, 2) { "ALL " } else { "" }, gen_expr(r, 2, pool)));
    }
    if r.chance(1, 10) {
        q.push(';');
    }
    q
}

const SEEDS: &[&str] = &[
    "MATCH (n:Person {name: 'Alice', age: 30})-[r:KNOWS*1..3]->(m) WHERE n.age > 25 AND m.x IN [1, 2.5, -3] RETURN n.name AS name, count(*) ORDER BY name DESC SKIP 1 LIMIT 10",
    "CREATE (a:A {v: -9223372036854775808, f: 1.5e3})-[:R {w: 0x1F}]->(b:B {l: [1, 2, 3]}) RETURN a",
    "UNWIND [1, 2, 3] AS x WITH x SKIP 1 LIMIT 2 WHERE x > 1 RETURN x, [y IN range(0, 10) WHERE y % 2 = 0 | y * 2][1..3]",
    "MATCH p = shortestPath((a)-[:T*..5]-(b)) RETURN p, CASE WHEN a.v > 0o17 THEN 'big' ELSE 'small' END",
    "CALL db.labels() YIELD label RETURN label LIMIT 5",
    "MERGE (n:L {id: 1}) ON CREATE SET n.c = 1 ON MATCH SET n.c = n.c + 1 RETURN n",
    "MATCH (n) WHERE NOT n.name STARTS WITH 'A' AND n.tags[0] = 'x' OR n:Admin RETURN reduce(s = 0, v IN n.vals | s + v) AS total",
    "CREATE INDEX ON :Person(name)",
    "CREATE VECTOR INDEX idx FOR (n:Doc) ON (n.emb) OPTIONS {dimensions: 128, similarity: 'cosine'}",
    "MATCH (a)-->(b)<--(c)--(d) RETURN a, b, c, d LIMIT 0x10",
    "RETURN -9223372036854775808, 9223372036854775807, 1e308, .5, 0x7FFFFFFFFFFFFFFF, [1,2,3][-1], {a: 1, b: [2, {c: 3}]}",
    "MATCH (n) DETACH DELETE n",
    "FOREACH (i IN [1,2,3] | CREATE (:N {i: i}))",
    "MATCH (n) WHERE EXISTS { MATCH (n)-[:R*2]->(m) WHERE m.v = 1 } RETURN [(n)-[:R]->(x) WHERE x.v > 1 | x.v] AS xs // trailing comment",
    "EXPLAIN MATCH (n) RETURN n UNION ALL MATCH (m) RETURN m /* c */ ;",
    "CREATE (a) WITH a CREATE (b) RETURN b SKIP 1 LIMIT 2",
];

fn mutate(r: &mut Rng, src: &str, pool: &[String]) -> String {
    let mut cs: Vec<char> = src.chars().collect();
    const SPECIAL: &[char] = &[
        '(', ')', '[', ']', '{', '}', '*', '.', ',', ':', '-', '+', '<', '>', '=', '|', '$', '\'', '"', '\\', '/', ';', ' ', '\n', '\t',
        '0', '9', 'e', 'E', 'x', 'o', '\0', '\u{7f}', '\u{85}', '\u{a0}', '\u{2028}', '\u{feff}', 'é', 'ß', '漢', '😀', '\u{301}', '\u{202e}', '\u{10ffff}',
    ];
    for _ in 0..r.range(1, 4) {
        let n = cs.len();
        match r.below(10) {
            0 | 1 if n > 0 => {
                let i = r.below(n as u64) as usize;
                cs[i] = *r.pick(SPECIAL);
            }
            2 | 3 => {
                let i = r.below(n as u64 + 1) as usize;
                cs.insert(i, *r.pick(SPECIAL));
            }
            4 if n > 0 => {
                let i = r.below(n as u64) as usize;
                let k = (r.range(1, 6) as usize).min(n - i);
                cs.drain(i..i + k);
            }
            5 if n > 0 => {
                // duplicate a slice
                let i = r.below(n as u64) as usize;
                let k = (r.range(1, 12) as usize).min(n - i);
                let s: Vec<char> = cs[i..i + k].to_vec();
                let j = r.below(n as u64 + 1) as usize;
                for (o, c) in s.into_iter().enumerate() {
                    cs.insert(j + o, c);
                }
            }
            6 if n > 0 => {
                let i = r.below(n as u64) as usize;
                cs.truncate(i);
            }
            7 => {
                // splice a numeral
                let i = r.below(n as u64 + 1) as usize;
                let t: Vec<char> = r.pick(pool).chars().collect();
                for (o, c) in t.into_iter().enumerate() {
                    cs.insert(i + o, c);
                }
            }
            8 => {
                // very long token
                let i = r.below(n as u64 + 1) as usize;
                let c = *r.pick(&['9', 'a', '0', '_', 'f', ' ', '.', '-']);
                let k = r.range(100, 6000) as usize;
                for _ in 0..k {
                    cs.insert(i, c);
                }
            }
            _ => {
                // moderate nesting around a random spot
                let i = r.below(n as u64 + 1) as usize;
                let (o, c) = *r.pick(&[('(', ')'), ('[', ']'), ('{', '}')]);
                let k = r.range(2, 40) as usize;
                for _ in 0..k {
                    cs.insert(i, o);
                }
                let j = r.range(i as u64 + k as u64, cs.len() as u64) as usize;
                for _ in 0..k {
                    cs.insert(j, c);
                }
            }
        }
    }
    cs.into_iter().collect()
}

// ---------------------------------------------------------------- deep nesting (child process)
fn deep_query(kind: &str, n: usize) -> String {
    match kind {
        "paren" => format!("RETURN {}1{}", "(".repeat(n), ")".repeat(n)),
        "list" => format!("RETURN {}1{}", "[".repeat(n), "]".repeat(n)),
        "map" => format!("RETURN {}1{}", "{a:".repeat(n), "}".repeat(n)),
        "neg" => format!("RETURN {}1", "- ".repeat(n)),
        "not" => format!("RETURN {}true", "NOT ".repeat(n)),
        "fn" => format!("RETURN {}1{}", "abs(".repeat(n), ")".repeat(n)),
        "add" => format!("RETURN 1{}", "+1".repeat(n)),
        "pow" => format!("RETURN 1{}", "^1".repeat(n)),
        "idx" => format!("RETURN x{}", "[0]".repeat(n)),
        "case" => format!("RETURN {}1{}", "CASE WHEN true THEN ".repeat(n), " END".repeat(n)),
        "and" => format!("MATCH (n) WHERE true{} RETURN n", " AND true".repeat(n)),
        "comp" => format!("RETURN {}1{}", "[x IN ".repeat(n), " | x]".repeat(n)),
        _ => panic!("kind"),
    }
}
const DEEP_KINDS: &[&str] = &["paren", "list", "map", "neg", "not", "fn", "add", "pow", "idx", "case", "and", "comp"];

/// child: parse one deep query on a thread with the given stack; exit 0 ok/err, 3 panic; abort on overflow
fn deep_child(kind: &str, n: usize, mb: usize) -> ! {
    let q = deep_query(kind, n);
    let h = std::thread::Builder::new()
        .stack_size(mb << 20)
        .spawn(move || {
            let r = parse_query(&q);
            // the AST is dropped here, on the same stack
            r.is_ok()
        })
        .unwrap();
    match h.join() {
        Ok(_) => std::process::exit(0),
        Err(_) => std::process::exit(3),
    }
}

#[derive(PartialEq, Debug)]
enum Deep {
    Fine,
    Panic,
    Abort(String),
}
fn deep_run(kind: &str, n: usize, mb: usize) -> Deep {
    let exe = std::env::current_exe().expect("exe");
    let o = std::process::Command::new(exe)
        .args(["--deep", kind, &n.to_string(), &mb.to_string()])
        .output()
        .expect("spawn child");
    match o.status.code() {
        Some(0) => Deep::Fine,
        Some(3) => Deep::Panic,
        c => Deep::Abort(format!("child status {:?} ({})", c, String::from_utf8_lossy(&o.stderr).lines().last().unwrap_or("").trim())),
    }
}

// ---------------------------------------------------------------- main
fn main() {
    let argv: Vec<String> = std::env::args().collect();
    if argv.len() == 5 && argv[1] == "--deep" {
        deep_child(&argv[2], argv[3].parse().unwrap(), argv[4].parse().unwrap());
    }
    let args = parse_args();
    quiet_panics();
    // everything runs on a large stack so that moderately nested fuzz inputs are judged by
    // `catch`, not by the size of the harness' own stack
    let h = std::thread::Builder::new().stack_size(1 << 30).spawn(move || real_main(args)).unwrap();
    h.join().expect("harness thread");
}

fn real_main(args: Args) {
    let out = Out::new(&args, "From Verif Require Import Numeral.", "Numeral.case", "Numeral.check_case", 250);
    let mut cx = Ctx { out };
    cx.out.rule = "accepted => the number in the AST equals the written numeral (integer literals, SKIP/LIMIT, variable-length bounds; floats: finite and correctly rounded); never a panic (numeral positions, generated and mutated queries, deep nesting)".into();
    let mut r = Rng::new(args.seed);
    let scale = if args.thorough { 5 } else { 1 };
    let ints = int_pool(&mut r, 60 * scale);
    let floats = float_pool(&mut r, 40 * scale);

    // ---- (i) integer literal positions
    for t in &ints {
        let neg = format!("-{}", t);
        cx.int_case(&format!("RETURN {}", t), t, "return");
        cx.int_case(&format!("RETURN -{}", t), &neg, "return-neg");
        cx.int_case(&format!("RETURN - /*c*/ {}", t), &neg, "return-neg-ws");
        cx.int_case(&format!("CREATE (a:L {{n: {}}})", t), t, "prop");
        cx.int_case(&format!("CREATE (a:L {{n: {}}})", neg), &neg, "prop-neg");
        cx.int_case(&format!("RETURN [{}]", t), t, "list");
        cx.int_case(&format!("RETURN [{}]", neg), &neg, "list-neg");
        cx.int_case(&format!("RETURN x[{}]", t), t, "index");
        cx.int_case(&format!("MATCH (n) WHERE n.v = {} RETURN n", t), t, "where");
        cx.int_case(&format!("MATCH (n {{k: {}}}) RETURN n", neg), &neg, "match-prop-neg");
        cx.int_case(&format!("RETURN {{k: {}}}", t), t, "map");
        cx.int_case(&format!("UNWIND [{}] AS x RETURN x", neg), &neg, "unwind-neg");
        cx.int_case(&format!("RETURN abs({})", t), t, "fn-arg");
        cx.int_case(&format!("RETURN x[{}..]", t), t, "slice");
    }

    // ---- SKIP / LIMIT in every statement shape
    type Getter = Box<dyn Fn(&Query) -> Option<usize>>;
    let shapes: Vec<(&str, &str, Getter)> = vec![
        ("return", "RETURN 'a' {K} {X}", Box::new(|q: &Query| q.skip.or(q.limit))),
        ("with-return", "WITH 'a' AS x RETURN x {K} {X}", Box::new(|q: &Query| q.skip.or(q.limit))),
        ("match", "MATCH (n) RETURN n {K} {X}", Box::new(|q: &Query| q.skip.or(q.limit))),
        ("create", "CREATE (a) RETURN a {K} {X}", Box::new(|q: &Query| q.skip.or(q.limit))),
        ("call", "CALL db.labels() YIELD label RETURN label {K} {X}", Box::new(|q: &Query| q.skip.or(q.limit))),
        ("pipeline", "CREATE (a) WITH a CREATE (b) RETURN b {K} {X}", Box::new(|q: &Query| q.skip.or(q.limit))),
        ("unwind", "UNWIND ['a'] AS x RETURN x {K} {X}", Box::new(|q: &Query| q.skip.or(q.limit))),
        ("with-clause", "MATCH (n) WITH n {K} {X} RETURN n", Box::new(|q: &Query| q.with_clause.as_ref().and_then(|w| w.skip.or(w.limit)))),
        ("union", "RETURN 'a' AS c UNION RETURN 'b' AS c {K} {X}", Box::new(|q: &Query| q.union_queries.first().and_then(|u| u.0.skip.or(u.0.limit)))),
        ("order-by", "MATCH (n) RETURN n ORDER BY n.name {K} {X}", Box::new(|q: &Query| q.skip.or(q.limit))),
    ];
    for (ti, t) in ints.iter().enumerate() {
        for (si, (pos, tpl, get)) in shapes.iter().enumerate() {
            let kw = if (ti + si) % 2 == 0 { "SKIP" } else { "LIMIT" };
            let tok = if (ti + si) % 5 == 4 { format!("-{}", t) } else { t.clone() };
            let q = tpl.replace("{K}", kw).replace("{X}", &tok);
            cx.count_case(&q, &tok, &format!("{}-{}", pos, kw), get.as_ref());
        }
    }

    // ---- variable-length bounds
    let wss = ["", "", "", " ", "  ", "\t", "\n", "/**/", "/*..*/", " /* 3..4 */ ", "//x\n"];
    cx.len_case(0, "", "", "", "", "", &mut r);
    cx.len_case(5, "", "", "", "", "", &mut r);
    cx.len_case(5, "", "", "", "", " ", &mut r);
    for (ti, t) in ints.iter().enumerate() {
        let other = if r.chance(1, 2) { r.pick(&["0", "1", "2", "5", "10", "0x3", "0o7"]).to_string() } else { r.pick(&ints).clone() };
        let lo = if ti % 7 == 6 { format!("-{}", t) } else { t.clone() };
        let pre = *r.pick(&["", "", "", " ", "/*c*/", "\n"]);
        cx.len_case(1, &lo, "", "", "", pre, &mut r);
        let (w1, w2) = (*r.pick(&wss), *r.pick(&wss));
        cx.len_case(2, &lo, w1, w2, &other, pre, &mut r);
        let (w1, w2) = (*r.pick(&wss), *r.pick(&wss));
        cx.len_case(2, &other, w1, w2, &lo, pre, &mut r);
        cx.len_case(3, "", "", *r.pick(&wss), &lo, pre, &mut r);
        cx.len_case(4, &lo, *r.pick(&wss), "", "", pre, &mut r);
    }

    // ---- float literals
    for t in &floats {
        if !is_grammar_float(t) {
            cx.fuzz(&format!("RETURN {}", t), "non-float numeral");
            continue;
        }
        let neg = format!("-{}", t);
        cx.float_case(&format!("RETURN {}", t), t, false, "return");
        cx.float_case(&format!("RETURN -{}", t), t, true, "return-neg");
        cx.float_case(&format!("CREATE (a {{f: {}}})", neg), &neg, false, "prop-neg");
        cx.float_case(&format!("RETURN [{}]", t), t, false, "list");
        cx.float_case(&format!("MATCH (n) WHERE n.v < {} RETURN n", t), t, false, "where");
    }
    for t in ["1.", "1.e5", "1e", "1e+", ".", ".e5", "0x", "0o", "0x1G", "0o8", "1_000", "0b101", "1e5.5", "1..2", "+5", "--5", "0x-5", "٣", "１２"] {
        for q in [format!("RETURN {}", t), format!("RETURN 1 LIMIT {}", t), format!("MATCH (a)-[*{}]->(b) RETURN a", t), format!("CREATE (a {{n: {}}})", t)] {
            cx.fuzz(&q, "malformed numeral");
        }
    }

    // ---- (ii) generated queries and mutations
    let n_gen = if args.thorough { 60_000 } else { 5_000 };
    let n_mut = if args.thorough { 400_000 } else { 25_000 };
    for i in 0..n_gen {
        let mut rc = Rng::for_case(args.seed, 1_000_000 + i);
        let q = gen_query(&mut rc, &ints);
        cx.fuzz(&q, "generated");
        if i % 2 == 0 {
            let m = mutate(&mut rc, &q, &ints);
            cx.fuzz(&m, "generated+mutated");
        }
    }
    for i in 0..n_mut {
        let mut rc = Rng::for_case(args.seed, 9_000_000 + i);
        let base = *rc.pick(SEEDS);
        let m = mutate(&mut rc, base, &ints);
        cx.fuzz(&m, "mutated");
    }
    for s in SEEDS {
        match run(s) {
            Res::Ok(_) => cx.out.count("seed_queries_accepted"),
            _ => cx.out.count("seed_queries_rejected"),
        }
        // every prefix and every single-character deletion
        let cs: Vec<char> = s.chars().collect();
        for k in 0..cs.len() {
            cx.fuzz(&cs[..k].iter().collect::<String>(), "prefix");
            let mut d = cs.clone();
            d.remove(k);
            cx.fuzz(&d.into_iter().collect::<String>(), "deletion");
        }
    }

    // ---- deep nesting, in child processes (a stack overflow aborts the process)
    // Moderate depth on a 2 MiB stack (tokio's default worker stack) must be fine; beyond that
    // the recursive-descent parser and the recursive AST overflow the stack: known finding.
    if args.only.is_none() {
        let moderate = [8usize, 32, 100];
        for kind in DEEP_KINDS {
            for &n in &moderate {
                cx.out.count("deep_moderate_probes");
                match deep_run(kind, n, 2) {
                    Deep::Fine => cx.out.count("deep_moderate_fine"),
                    other => {
                        let human = format!("deep[{} x{} @2MiB] {:.60}…", kind, n, deep_query(kind, n));
                        let idx = cx.out.case(format!("CNoPanic {} true", g_bytes(deep_query(kind, n).as_bytes())), human.clone(), true);
                        cx.out.fail(idx, &human, &format!("{:?}", other), None);
                    }
                }
            }
        }
        let depths: &[usize] = if args.thorough { &[1000, 3000, 20000] } else { &[3000] };
        for kind in DEEP_KINDS {
            for &n in depths {
                cx.out.count("deep_probes");
                let res = deep_run(kind, n, 2);
                match res {
                    Deep::Fine => cx.out.count("deep_fine"),
                    Deep::Panic | Deep::Abort(_) => {
                        cx.out.count("deep_overflow");
                        let human = format!("deep[{} x{} @2MiB]", kind, n);
                        let idx = cx.out.skip();
                        cx.out.fail(idx, &human, &format!("{:?}", res), Some(KNOWN_DEEP));
                    }
                }
            }
        }
        // stored witness of the known finding, replayed every run
        let w = deep_run("paren", 1000, 2);
        cx.out.known.push(KnownReplay {
            class: KNOWN_DEEP.into(),
            still_fails: w != Deep::Fine,
            detail: format!("RETURN + 1000 nested parentheses around 1, parsed on a 2 MiB stack: {:?}", w),
        });
    }
    cx.out.finish();
}
