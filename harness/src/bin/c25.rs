//! probe (temporary)
use samyama::query::parser::parse_query;

fn main() {
    let a: Vec<String> = std::env::args().collect();
    let kind = a[1].as_str();
    let n: usize = a[2].parse().unwrap();
    let mb: usize = a[3].parse().unwrap();
    let q = match kind {
        "paren" => format!("RETURN {}1{}", "(".repeat(n), ")".repeat(n)),
        "list" => format!("RETURN {}1{}", "[".repeat(n), "]".repeat(n)),
        "neg" => format!("RETURN {}1", "-".repeat(n)),
        "not" => format!("RETURN {}true", "NOT ".repeat(n)),
        "fn" => format!("RETURN {}1{}", "abs(".repeat(n), ")".repeat(n)),
        "add" => format!("RETURN 1{}", "+1".repeat(n)),
        "map" => format!("RETURN {}1{}", "{a:".repeat(n), "}".repeat(n)),
        "idx" => format!("RETURN x{}", "[0]".repeat(n)),
        "pow" => format!("RETURN 1{}", "^1".repeat(n)),
        "case" => format!("RETURN {}1{}", "CASE WHEN true THEN ".repeat(n), " END".repeat(n)),
        _ => panic!(),
    };
    let t0 = std::time::Instant::now();
    let h = std::thread::Builder::new().stack_size(mb << 20).spawn(move || {
        let r = parse_query(&q);
        match r { Ok(_) => "ok".to_string(), Err(e) => format!("err {}", e.to_string().chars().take(80).collect::<String>().replace('\n', " ")) }
    }).unwrap();
    let r = h.join();
    println!("{kind} n={n} stack={mb}MB -> {:?} in {:?}", r.map_err(|_| "panic"), t0.elapsed());
}
