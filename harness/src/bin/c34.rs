//! C34 — optimization solvers return consistent, in-bounds, reproducible results.
//!
//! Every solver of samyama-optimization is run on generated box problems through a `Problem`
//! wrapper that logs every `fitness(x)` call.  On the implementation we evaluate the property's
//! own predicates (best inside the box; reported best fitness == objective at the reported best,
//! bit-exact; history never worsens; the best is an evaluated candidate; bit-equal results for
//! rayon pools of 1 and 8 threads and for a repeated run; Pareto fronts mutually non-dominated).
//! The evaluation log, the bounds and the result go into a Gallina case and `Solver.check_case`
//! replays them against the laws of the elitist search skeleton (trace refinement).
use ndarray::Array1;
use samyama_optimization::algorithms::*;
use samyama_optimization::common::*;
use std::sync::Mutex;
use vh::*;

// ---------- order keys ----------
/// Order-preserving integer key of a non-NaN f64 (sign-magnitude bits as a signed integer).
fn key(x: f64) -> i128 {
    let b = x.to_bits();
    let m = (b & 0x7fff_ffff_ffff_ffff) as i128;
    if b >> 63 == 1 {
        -m
    } else {
        m
    }
}
fn zk(x: f64) -> String {
    let k = key(x);
    if k < 0 {
        format!("({})", k)
    } else {
        format!("{}", k)
    }
}
fn zlist(v: &[f64]) -> String {
    g_list(v.iter().map(|x| zk(*x)))
}
fn bits(v: &[f64]) -> Vec<u64> {
    v.iter().map(|x| x.to_bits()).collect()
}

// ---------- problems ----------
#[derive(Clone, Copy, Debug)]
enum Obj {
    Sphere,
    L1,
    Rastrigin,
    Linear,
    Step,
    NegL1,
}
#[derive(Clone, Copy, Debug)]
enum Pen {
    None,
    SumLe,   // sum(x - lower) <= c  (quadratic penalty)
    FirstGe, // x0 >= c              (linear penalty)
}

#[derive(Clone, Debug)]
struct Spec {
    lower: Vec<f64>,
    upper: Vec<f64>,
    obj: Obj,
    shift: Vec<f64>,
    coef: Vec<f64>,
    pen: Pen,
    pen_c: f64,
    tags: Vec<&'static str>,
}

impl Spec {
    fn objective(&self, v: &[f64]) -> f64 {
        let d = v.len();
        match self.obj {
            Obj::Sphere => (0..d).map(|i| (v[i] - self.shift[i]) * (v[i] - self.shift[i])).sum(),
            Obj::L1 => (0..d).map(|i| (v[i] - self.shift[i]).abs()).sum(),
            Obj::Rastrigin => (0..d)
                .map(|i| {
                    let x = v[i] - self.shift[i];
                    x * x - 10.0 * (2.0 * std::f64::consts::PI * x).cos() + 10.0
                })
                .sum(),
            Obj::Linear => (0..d).map(|i| self.coef[i] * v[i]).sum(),
            Obj::Step => (0..d).map(|i| (v[i] - self.shift[i]).abs().floor()).sum(),
            Obj::NegL1 => -(0..d).map(|i| (v[i] - self.shift[i]).abs()).sum::<f64>(),
        }
    }
    fn penalty(&self, v: &[f64]) -> f64 {
        match self.pen {
            Pen::None => 0.0,
            Pen::SumLe => {
                let s: f64 = (0..v.len()).map(|i| v[i] - self.lower[i]).sum();
                let g = s - self.pen_c;
                if g > 0.0 {
                    1000.0 * g * g
                } else {
                    0.0
                }
            }
            Pen::FirstGe => {
                let g = self.pen_c - v[0];
                if g > 0.0 {
                    50.0 * g
                } else {
                    0.0
                }
            }
        }
    }
    fn in_box(&self, v: &[f64]) -> bool {
        v.len() == self.lower.len() && (0..v.len()).all(|i| self.lower[i] <= v[i] && v[i] <= self.upper[i])
    }
    fn g_bounds(&self) -> String {
        g_list((0..self.lower.len()).map(|i| format!("({}, {})", zk(self.lower[i]), zk(self.upper[i]))))
    }
}

struct Logged<'a> {
    spec: &'a Spec,
    log: Mutex<Vec<(Vec<f64>, f64)>>,
    pen_active: Mutex<bool>,
}
impl<'a> Logged<'a> {
    fn new(spec: &'a Spec) -> Self {
        Logged { spec, log: Mutex::new(Vec::new()), pen_active: Mutex::new(false) }
    }
}
impl<'a> Problem for Logged<'a> {
    fn objective(&self, v: &Array1<f64>) -> f64 {
        self.spec.objective(v.as_slice().unwrap())
    }
    fn penalty(&self, v: &Array1<f64>) -> f64 {
        self.spec.penalty(v.as_slice().unwrap())
    }
    fn fitness(&self, v: &Array1<f64>) -> f64 {
        let p = self.penalty(v);
        let f = self.objective(v) + p;
        if p > 0.0 {
            *self.pen_active.lock().unwrap() = true;
        }
        self.log.lock().unwrap().push((v.to_vec(), f));
        f
    }
    fn dim(&self) -> usize {
        self.spec.lower.len()
    }
    fn bounds(&self) -> (Array1<f64>, Array1<f64>) {
        (Array1::from(self.spec.lower.clone()), Array1::from(self.spec.upper.clone()))
    }
}

type MoEntry = (Vec<f64>, Vec<f64>, f64);
struct LoggedMo<'a> {
    spec: &'a Spec,
    nobj: usize,
    log: Mutex<Vec<MoEntry>>,
}
impl<'a> LoggedMo<'a> {
    fn objs(&self, x: &[f64]) -> Vec<f64> {
        let d = x.len();
        let s = &self.spec;
        let mut o = vec![
            (0..d).map(|i| (x[i] - s.shift[i]) * (x[i] - s.shift[i])).sum::<f64>(),
            (0..d).map(|i| (x[i] - s.coef[i]) * (x[i] - s.coef[i])).sum::<f64>(),
        ];
        if self.nobj == 3 {
            o.push((0..d).map(|i| (x[i] - s.lower[i]).abs().floor()).sum::<f64>());
        }
        o
    }
    fn pens(&self, x: &[f64]) -> Vec<f64> {
        match self.spec.pen {
            Pen::None => vec![],
            _ => vec![self.spec.penalty(x)],
        }
    }
}
impl<'a> MultiObjectiveProblem for LoggedMo<'a> {
    fn objectives(&self, v: &Array1<f64>) -> Vec<f64> {
        let x = v.as_slice().unwrap();
        let o = self.objs(x);
        let viol: f64 = self.pens(x).iter().sum();
        self.log.lock().unwrap().push((x.to_vec(), o.clone(), viol));
        o
    }
    fn penalties(&self, v: &Array1<f64>) -> Vec<f64> {
        self.pens(v.as_slice().unwrap())
    }
    fn dim(&self) -> usize {
        self.spec.lower.len()
    }
    fn bounds(&self) -> (Array1<f64>, Array1<f64>) {
        (Array1::from(self.spec.lower.clone()), Array1::from(self.spec.upper.clone()))
    }
    fn num_objectives(&self) -> usize {
        self.nobj
    }
}

// ---------- solvers ----------
#[derive(Clone, Copy, Debug, PartialEq)]
enum Class {
    Greedy,
    Archive,
    GenElitist,
}
impl Class {
    fn g(self) -> &'static str {
        match self {
            Class::Greedy => "GreedyIndividual",
            Class::Archive => "ArchiveBest",
            Class::GenElitist => "GenerationalElitist",
        }
    }
    fn counter(self) -> &'static str {
        match self {
            Class::Greedy => "class_greedy_per_individual",
            Class::Archive => "class_archive_best",
            Class::GenElitist => "class_generational_elitist",
        }
    }
}

/// Evaluation schedule fixed by the solver's structure: `n0` evaluations before the loop, `k` per
/// generation, history entry g pushed after `n0 + (g + shift) * k` evaluations.
#[derive(Clone, Copy)]
struct Sched {
    n0: usize,
    k: usize,
    shift: usize,
}

struct So {
    name: &'static str,
    class: Class,
    /// (sched if fixed, best == running minimum exactly, evaluations seen by the final best (None = all))
    shape: fn(usize, usize) -> (Option<Sched>, bool, Option<usize>),
    run: fn(&Logged, SolverConfig, u64) -> OptimizationResult,
}

fn fixed(n0: usize, k: usize) -> Option<Sched> {
    Some(Sched { n0, k, shift: 0 })
}

fn so_solvers() -> Vec<So> {
    use Class::*;
    vec![
        So { name: "Jaya", class: Greedy, shape: |n, _| (fixed(n, n), true, None), run: |p, c, s| JayaSolver::new(c).with_seed(s).solve(p) },
        So { name: "Rao1", class: Greedy, shape: |n, _| (fixed(n, n), true, None), run: |p, c, s| RaoSolver::new(c, RaoVariant::Rao1).with_seed(s).solve(p) },
        // Rao-2/3 also evaluate a random probe point per individual that never enters the population
        So { name: "Rao2", class: Greedy, shape: |n, _| (fixed(n, 2 * n), false, None), run: |p, c, s| RaoSolver::new(c, RaoVariant::Rao2).with_seed(s).solve(p) },
        So { name: "Rao3", class: Greedy, shape: |n, _| (fixed(n, 2 * n), false, None), run: |p, c, s| RaoSolver::new(c, RaoVariant::Rao3).with_seed(s).solve(p) },
        So { name: "TLBO", class: Greedy, shape: |n, _| (fixed(n, 2 * n), true, None), run: |p, c, s| TLBOSolver::new(c).with_seed(s).solve(p) },
        So { name: "BMR", class: Greedy, shape: |n, _| (fixed(n, n), true, None), run: |p, c, s| BMRSolver::new(c).with_seed(s).solve(p) },
        So { name: "BWR", class: Greedy, shape: |n, _| (fixed(n, n), true, None), run: |p, c, s| BWRSolver::new(c).with_seed(s).solve(p) },
        So { name: "BMWR", class: Greedy, shape: |n, _| (fixed(n, n), true, None), run: |p, c, s| BMWRSolver::new(c).with_seed(s).solve(p) },
        So { name: "QOJaya", class: Greedy, shape: |n, _| (fixed(2 * n, 2 * n), true, None), run: |p, c, s| QOJayaSolver::new(c).with_seed(s).solve(p) },
        So { name: "ITLBO", class: Greedy, shape: |n, _| (fixed(n, 2 * n), true, None), run: |p, c, s| ITLBOSolver::new(c).with_seed(s).solve(p) },
        So { name: "PSO", class: Archive, shape: |n, _| (fixed(n, n), true, None), run: |p, c, s| PSOSolver::new(c).with_seed(s).solve(p) },
        So { name: "DE", class: Greedy, shape: |n, _| (fixed(n, n), true, None), run: |p, c, s| DESolver::new(c).with_seed(s).solve(p) },
        So { name: "GOTLBO", class: Greedy, shape: |n, _| (fixed(n, 4 * n), true, None), run: |p, c, s| GOTLBOSolver::new(c).with_seed(s).solve(p) },
        // only fireflies that move are re-evaluated: no fixed schedule; every evaluation enters the population
        So { name: "Firefly", class: Archive, shape: |_, _| (None, true, None), run: |p, c, s| FireflySolver::new(c).with_seed(s).solve(p) },
        So { name: "Cuckoo", class: Archive, shape: |n, _| (fixed(n, n + (n as f64 * 0.25) as usize), true, None), run: |p, c, s| CuckooSolver::new(c).with_seed(s).solve(p) },
        So { name: "GWO", class: Archive, shape: |n, _| (fixed(n, n), true, None), run: |p, c, s| GWOSolver::new(c).with_seed(s).solve(p) },
        So { name: "GA", class: GenElitist, shape: |n, _| (fixed(n, n - 1), true, None), run: |p, c, s| GASolver::new(c).with_seed(s).solve(p) },
        So { name: "SA", class: Archive, shape: |_, _| (fixed(1, 1), true, None), run: |p, c, s| SASolver::new(c).with_seed(s).solve(p) },
        // a better local-search point is accepted only with probability `loudness`: the best may miss an evaluated point
        So { name: "Bat", class: Archive, shape: |_, _| (None, false, None), run: |p, c, s| BatSolver::new(c).with_seed(s).solve(p) },
        // the scout phase evaluates a data-dependent number of points; and it runs BEFORE the
        // "update best" pass of the cycle: a food source found and then tried > limit times by the
        // onlookers of the same cycle is abandoned before its fitness is ever recorded, so the
        // best may miss an evaluated point (thorough seed 1 case 2364: fitness 2.0 evaluated,
        // best 9.0). The result predicates still hold; only "best = running minimum" does not.
        So { name: "ABC", class: Archive, shape: |_, _| (None, false, None), run: |p, c, s| ABCSolver::new(c).with_seed(s).solve(p) },
        // positions written by the last iteration are never ranked
        So { name: "GSA", class: Archive, shape: |n, it| (fixed(n, n), true, Some(n + (it - 1) * n)), run: |p, c, s| GSASolver::new(c).with_seed(s).solve(p) },
        So { name: "HS", class: Greedy, shape: |n, _| (fixed(n, 1), true, None), run: |p, c, s| HSSolver::new(c).with_seed(s).solve(p) },
        So { name: "FPA", class: Archive, shape: |n, _| (fixed(n, n), true, None), run: |p, c, s| FPASolver::new(c).with_seed(s).solve(p) },
        // history pushed after the generation
        So { name: "SAMPJaya", class: Greedy, shape: |n, _| (Some(Sched { n0: n, k: n, shift: 1 }), true, None), run: |p, c, s| SAMPJayaSolver::new(c).with_seed(s).solve(p) },
        So { name: "EHRJaya", class: Greedy, shape: |n, _| (fixed(n, n), true, None), run: |p, c, s| EHRJayaSolver::new(c).with_seed(s).solve(p) },
        So { name: "QORao1", class: Greedy, shape: |n, _| (fixed(2 * n, 2 * n), true, None), run: |p, c, s| QORaoSolver::new(c, RaoVariant::Rao1).with_seed(s).solve(p) },
        So { name: "QORao2", class: Greedy, shape: |n, _| (fixed(2 * n, 3 * n), false, None), run: |p, c, s| QORaoSolver::new(c, RaoVariant::Rao2).with_seed(s).solve(p) },
        So { name: "QORao3", class: Greedy, shape: |n, _| (fixed(2 * n, 3 * n), false, None), run: |p, c, s| QORaoSolver::new(c, RaoVariant::Rao3).with_seed(s).solve(p) },
        // the Rao variant (1 or 2 evaluations) is drawn per individual
        So { name: "SAPHR", class: Greedy, shape: |_, _| (None, false, None), run: |p, c, s| SAPHRSolver::new(c).with_seed(s).solve(p) },
    ]
}

struct Mo {
    name: &'static str,
    run: fn(&LoggedMo, SolverConfig, u64) -> MultiObjectiveResult,
}
fn mo_solvers() -> Vec<Mo> {
    vec![
        Mo { name: "NSGA2", run: |p, c, s| NSGA2Solver::new(c).with_seed(s).solve(p) },
        Mo { name: "MOTLBO", run: |p, c, s| MOTLBOSolver::new(c).with_seed(s).solve(p) },
        Mo { name: "MOBMR", run: |p, c, s| MOBMWRSolver::new(c, MOBMWRVariant::MOBMR).with_seed(s).solve(p) },
        Mo { name: "MOBWR", run: |p, c, s| MOBMWRSolver::new(c, MOBMWRVariant::MOBWR).with_seed(s).solve(p) },
        Mo { name: "MOBMWR", run: |p, c, s| MOBMWRSolver::new(c, MOBMWRVariant::MOBMWR).with_seed(s).solve(p) },
        Mo { name: "MORaoDE", run: |p, c, s| MORaoDESolver::new(c).with_seed(s).solve(p) },
    ]
}

// ---------- generators ----------
fn unit(r: &mut Rng) -> f64 {
    (r.next() >> 11) as f64 / (1u64 << 53) as f64
}
fn between(r: &mut Rng, a: f64, b: f64) -> f64 {
    a + (b - a) * unit(r)
}

/// One coordinate's bounds. kind: 0 asymmetric, 1 one-sided, 2 tiny, 3 huge, 4 degenerate.
fn gen_coord(r: &mut Rng, kind: u64) -> (f64, f64) {
    match kind {
        0 => {
            let lo = between(r, -100.0, 100.0);
            let w = *r.pick(&[0.5, 3.0, 17.25, 200.0, 1e4]);
            (lo, lo + w * between(r, 0.1, 1.0))
        }
        1 => {
            if r.chance(1, 2) {
                (between(r, 1e-3, 5.0), between(r, 10.0, 1000.0))
            } else {
                (-between(r, 100.0, 1e4), -between(r, 1e-3, 50.0))
            }
        }
        2 => {
            let lo: f64 = *r.pick(&[1.0, -1.0, 0.1, 123456.789, -3.0e-5, 0.0]);
            if r.chance(1, 2) {
                // a few ulps wide
                let k = r.range(1, 6);
                let hi = if lo >= 0.0 { f64::from_bits(lo.to_bits() + k) } else { f64::from_bits(lo.to_bits() - k) };
                (lo, hi)
            } else {
                (lo, lo + 1e-12 * (1.0 + lo.abs()))
            }
        }
        3 => {
            let m = *r.pick(&[1e12, 1e40, 1e100]);
            if r.chance(1, 2) {
                (-m * between(r, 0.5, 1.0), m * between(r, 0.001, 0.1))
            } else {
                (m * 1e-6, m)
            }
        }
        _ => {
            let v = *r.pick(&[0.0, 2.0, -7.5, 1e-9, 1e9]);
            (v, v)
        }
    }
}

fn gen_spec(r: &mut Rng, allow_degenerate: bool) -> Spec {
    let dim = r.range(1, 6) as usize;
    let mut lower = Vec::new();
    let mut upper = Vec::new();
    let mut tags: Vec<&'static str> = Vec::new();
    // a problem is mostly of one flavour so that tiny/huge ranges do not drown each other
    let flavour = r.below(10);
    for _ in 0..dim {
        let kind = if allow_degenerate && r.chance(1, 6) {
            4
        } else {
            match flavour {
                0..=3 => 0,
                4 | 5 => r.below(2),
                6 | 7 => 2,
                _ => 3,
            }
        };
        let (lo, hi) = gen_coord(r, kind);
        tags.push(["asym", "onesided", "tiny", "huge", "degenerate"][kind as usize]);
        lower.push(lo);
        upper.push(hi);
    }
    let huge = tags.contains(&"huge");
    let obj = *r.pick(&[Obj::Sphere, Obj::Sphere, Obj::L1, Obj::Rastrigin, Obj::Linear, Obj::Step, Obj::NegL1]);
    let shift: Vec<f64> = (0..dim)
        .map(|i| {
            let (lo, hi) = (lower[i], upper[i]);
            match r.below(4) {
                0 => lo - (hi - lo) * 0.3, // optimum outside: lower face
                1 => hi + (hi - lo) * 0.3,
                _ => lo + (hi - lo) * unit(r),
            }
        })
        .collect();
    let coef: Vec<f64> = (0..dim).map(|_| between(r, -3.0, 3.0)).collect();
    let (pen, pen_c) = if huge {
        (Pen::None, 0.0)
    } else {
        match r.below(3) {
            0 => (Pen::None, 0.0),
            1 => {
                let tot: f64 = (0..dim).map(|i| upper[i] - lower[i]).sum();
                (Pen::SumLe, tot * between(r, 0.2, 0.8))
            }
            _ => (Pen::FirstGe, lower[0] + (upper[0] - lower[0]) * between(r, 0.2, 0.8)),
        }
    };
    Spec { lower, upper, obj, shift, coef, pen, pen_c, tags }
}

// ---------- one single-objective case ----------
struct Pools {
    one: rayon::ThreadPool,
    eight: rayon::ThreadPool,
}

fn same_result(a: &OptimizationResult, b: &OptimizationResult) -> bool {
    a.best_fitness.to_bits() == b.best_fitness.to_bits()
        && bits(a.best_variables.as_slice().unwrap()) == bits(b.best_variables.as_slice().unwrap())
        && bits(&a.history) == bits(&b.history)
}

fn sorted_log(l: &[(Vec<f64>, f64)]) -> Vec<(Vec<u64>, u64)> {
    let mut v: Vec<(Vec<u64>, u64)> = l.iter().map(|(x, f)| (bits(x), f.to_bits())).collect();
    v.sort();
    v
}

fn run_so(out: &mut Out, pools: &Pools, sv: &So, spec: &Spec, cfg: &SolverConfig, seed: u64) {
    let idx = out.next_index();
    if !out.wants(idx) {
        out.skip();
        return;
    }
    let human = format!(
        "{} class={:?} pop={} iters={} seed={} obj={:?} pen={:?}({}) lower={:?} upper={:?} shift={:?} coef={:?}",
        sv.name, sv.class, cfg.population_size, cfg.max_iterations, seed, spec.obj, spec.pen, spec.pen_c, spec.lower,
        spec.upper, spec.shift, spec.coef
    );
    let run_in = |pool: &rayon::ThreadPool| {
        let p = Logged::new(spec);
        let c = cfg.clone();
        let r = catch(std::panic::AssertUnwindSafe(|| pool.install(|| (sv.run)(&p, c, seed))));
        let log = p.log.lock().unwrap().clone();
        let pen = *p.pen_active.lock().unwrap();
        (r, log, pen)
    };
    let (r1, log1, pen_active) = run_in(&pools.one);
    let r1 = match r1 {
        Ok(r) => r,
        Err(msg) => {
            // the property promises a result on every proper box
            let i = out.case(format!("(Box {} {}%nat {}%nat true)%Z", spec.g_bounds(), cfg.population_size, cfg.max_iterations), human.clone(), true);
            out.fail(i, &human, &format!("solver panicked on a proper box: {}", msg), None);
            out.count("panicked_on_proper_box");
            return;
        }
    };
    let (r8, log8, _) = run_in(&pools.eight);
    let (r1b, _, _) = run_in(&pools.one);

    let mut bad: Vec<String> = Vec::new();
    let bx = r1.best_variables.as_slice().unwrap().to_vec();
    // (1) in bounds
    if !spec.in_box(&bx) {
        bad.push(format!("best_variables {:?} outside the box", bx));
    }
    // (2) reported best fitness is the objective at the reported best variables, bit-exact
    let fb = spec.objective(&bx) + spec.penalty(&bx);
    if fb.to_bits() != r1.best_fitness.to_bits() {
        bad.push(format!("best_fitness {} != fitness(best_variables) {}", r1.best_fitness, fb));
    }
    if r1.best_fitness.is_nan() || log1.iter().any(|(_, f)| f.is_nan()) || r1.history.iter().any(|h| h.is_nan()) {
        bad.push("NaN fitness".to_string());
    }
    // (3) history never worsens (every single-objective solver is classified elitist)
    if let Some(w) = r1.history.windows(2).position(|w| !(w[1] <= w[0])) {
        bad.push(format!("history worsens at {}: {} -> {}", w, r1.history[w], r1.history[w + 1]));
    }
    out.count("monotone_claim_checked");
    if r1.history.len() != cfg.max_iterations {
        bad.push(format!("history has {} entries for {} iterations", r1.history.len(), cfg.max_iterations));
    }
    // (4) the best is one of the evaluated candidates
    let bxb = bits(&bx);
    if !log1.iter().any(|(x, f)| bits(x) == bxb && f.to_bits() == r1.best_fitness.to_bits()) {
        bad.push("best (variables, fitness) is not among the logged evaluations".to_string());
    }
    // (5) same seed: 1 thread == 8 threads == repeated run, bit for bit
    match &r8 {
        Ok(r8) => {
            if !same_result(&r1, r8) {
                bad.push(format!("1-thread and 8-thread results differ: {} vs {}", r1.best_fitness, r8.best_fitness));
            }
            if sorted_log(&log1) != sorted_log(&log8) {
                bad.push("1-thread and 8-thread runs evaluated different candidates".to_string());
            }
        }
        Err(m) => bad.push(format!("8-thread run panicked: {}", m)),
    }
    match &r1b {
        Ok(rb) => {
            if !same_result(&r1, rb) {
                bad.push("repeated run with the same seed differs".to_string());
            }
        }
        Err(m) => bad.push(format!("repeated run panicked: {}", m)),
    }
    out.count("thread_pairs_compared");

    // generator health
    out.count(sv.class.counter());
    out.count(&format!("solver_{}", sv.name));
    if r1.history.windows(2).any(|w| w[1] < w[0]) || r1.history.last().map_or(false, |h| r1.best_fitness < *h) {
        out.count("history_strictly_improved");
    }
    if log1.iter().any(|(x, _)| (0..x.len()).any(|i| spec.lower[i] < spec.upper[i] && (x[i] == spec.lower[i] || x[i] == spec.upper[i]))) {
        out.count("clamp_reached_a_bound");
    }
    for t in ["degenerate", "tiny", "huge", "onesided", "asym"] {
        if spec.tags.contains(&t) {
            out.count(&format!("box_{}", t));
        }
    }
    if pen_active {
        out.count("penalty_active");
    }
    out.count_n("evaluations_logged", log1.len() as u64);
    if log1.iter().any(|(_, f)| *f < r1.best_fitness) {
        // allowed only for the solvers declared non-exact (Bat, ABC, Rao2/3, QORao2/3, SAPHR, GSA's last positions)
        out.count("best_missed_an_evaluated_point");
        out.count(&format!("best_missed_{}", sv.name));
    }

    // Gallina case
    let (sched, exact, fin) = (sv.shape)(cfg.population_size, cfg.max_iterations);
    let g_sched = match sched {
        Some(s) => {
            out.count("fixed_schedule_replayed");
            format!(
                "(Some {}%nat)",
                g_list((0..cfg.max_iterations).map(|g| format!("{}", s.n0 + (g + s.shift) * s.k)))
            )
        }
        None => "None".to_string(),
    };
    if exact {
        out.count("exact_running_minimum");
    }
    let g_fin = match fin {
        Some(p) => format!("(Some {}%nat)", p),
        None => "None".to_string(),
    };
    let g = format!(
        "(SO {} {} {} {} {} {} {} {} {})%Z",
        sv.class.g(),
        spec.g_bounds(),
        g_list(log1.iter().map(|(x, f)| format!("({}, {})", zlist(x), zk(*f)))),
        g_sched,
        g_bool(exact),
        g_fin,
        zlist(&r1.history),
        zlist(&bx),
        zk(r1.best_fitness)
    );
    let i = out.case(g, human.clone(), cfg.max_iterations > 0);
    if !bad.is_empty() {
        out.fail(i, &human, &bad.join("; "), None);
    }
}

// ---------- one multi-objective case ----------
fn dominates(f1: &[f64], v1: f64, f2: &[f64], v2: f64) -> bool {
    if v1 == 0.0 && v2 > 0.0 {
        return true;
    }
    if v1 > 0.0 && v2 == 0.0 {
        return false;
    }
    if v1 > 0.0 && v2 > 0.0 {
        return v1 < v2;
    }
    f1.iter().zip(f2).all(|(a, b)| a <= b) && f1.iter().zip(f2).any(|(a, b)| a < b)
}

fn front_bits(r: &MultiObjectiveResult) -> (Vec<(Vec<u64>, Vec<u64>, u64)>, Vec<u64>) {
    (
        r.pareto_front
            .iter()
            .map(|m| (bits(m.variables.as_slice().unwrap()), bits(&m.fitness), m.constraint_violation.to_bits()))
            .collect(),
        bits(&r.history),
    )
}

fn run_mo(out: &mut Out, pools: &Pools, sv: &Mo, spec: &Spec, nobj: usize, cfg: &SolverConfig, seed: u64) {
    let idx = out.next_index();
    if !out.wants(idx) {
        out.skip();
        return;
    }
    let human = format!(
        "{} (multi-objective, {} objectives) pop={} iters={} seed={} pen={:?}({}) lower={:?} upper={:?} shift={:?} coef={:?}",
        sv.name, nobj, cfg.population_size, cfg.max_iterations, seed, spec.pen, spec.pen_c, spec.lower, spec.upper, spec.shift, spec.coef
    );
    let run_in = |pool: &rayon::ThreadPool| {
        let p = LoggedMo { spec, nobj, log: Mutex::new(Vec::new()) };
        let c = cfg.clone();
        let r = catch(std::panic::AssertUnwindSafe(|| pool.install(|| (sv.run)(&p, c, seed))));
        let log = p.log.lock().unwrap().clone();
        (r, log)
    };
    let (r1, log1) = run_in(&pools.one);
    let r1 = match r1 {
        Ok(r) => r,
        Err(msg) => {
            let i = out.case(format!("(Box {} {}%nat {}%nat true)%Z", spec.g_bounds(), cfg.population_size, cfg.max_iterations), human.clone(), true);
            out.fail(i, &human, &format!("solver panicked on a proper box: {}", msg), None);
            out.count("panicked_on_proper_box");
            return;
        }
    };
    let (r8, _) = run_in(&pools.eight);
    let mut bad: Vec<String> = Vec::new();
    let probe = LoggedMo { spec, nobj, log: Mutex::new(Vec::new()) };
    if r1.pareto_front.is_empty() {
        bad.push("empty Pareto front".to_string());
    }
    for (a, m) in r1.pareto_front.iter().enumerate() {
        let x = m.variables.as_slice().unwrap();
        if !spec.in_box(x) {
            bad.push(format!("front member {} outside the box: {:?}", a, x));
        }
        if bits(&probe.objs(x)) != bits(&m.fitness) {
            bad.push(format!("front member {}: reported objectives differ from objectives(variables)", a));
        }
        let v: f64 = probe.pens(x).iter().sum();
        if key(v) != key(m.constraint_violation) {
            bad.push(format!("front member {}: reported violation differs", a));
        }
        for (b, o) in r1.pareto_front.iter().enumerate() {
            if a != b && dominates(&o.fitness, o.constraint_violation, &m.fitness, m.constraint_violation) {
                bad.push(format!("front member {} dominates front member {}", b, a));
            }
        }
        if !log1.iter().any(|(lx, lf, _)| bits(lx) == bits(x) && bits(lf) == bits(&m.fitness)) {
            bad.push(format!("front member {} was never evaluated", a));
        }
    }
    match &r8 {
        Ok(r8) => {
            if front_bits(&r1) != front_bits(r8) {
                bad.push("1-thread and 8-thread fronts differ".to_string());
            }
        }
        Err(m) => bad.push(format!("8-thread run panicked: {}", m)),
    }
    out.count("thread_pairs_compared");
    out.count("class_multiobjective_no_monotone_claim");
    out.count(&format!("solver_{}", sv.name));
    if r1.history.windows(2).any(|w| w[1] > w[0]) {
        out.count("mo_history_not_monotone_observed");
    }
    if r1.pareto_front.len() > 1 {
        out.count("front_with_several_members");
    }
    if log1.iter().any(|(_, _, v)| *v > 0.0) {
        out.count("penalty_active");
    }
    out.count_n("evaluations_logged", log1.len() as u64);
    let g_mo = |x: &[f64], f: &[f64], v: f64| format!("({}, ({}, {}))", zlist(x), zlist(f), zk(v));
    let g = format!(
        "(MO {} {} {})%Z",
        spec.g_bounds(),
        g_list(log1.iter().map(|(x, f, v)| g_mo(x, f, *v))),
        g_list(r1.pareto_front.iter().map(|m| g_mo(m.variables.as_slice().unwrap(), &m.fitness, m.constraint_violation)))
    );
    let i = out.case(g, human.clone(), true);
    if !bad.is_empty() {
        out.fail(i, &human, &bad.join("; "), None);
    }
}

// ---------- degenerate / inverted boxes ----------
/// kind 0: every coordinate pinned; 1: some pinned; 2: one coordinate inverted; 3: inverted + pinned
fn gen_bad_box(r: &mut Rng, kind: u64) -> Spec {
    let mut s = gen_spec(r, false);
    s.pen = Pen::None;
    let d = s.lower.len();
    match kind {
        0 => {
            for i in 0..d {
                s.upper[i] = s.lower[i];
            }
        }
        1 => {
            let j = r.below(d as u64) as usize;
            s.upper[j] = s.lower[j];
            if d > 1 && r.chance(1, 2) {
                let j2 = r.below(d as u64) as usize;
                s.lower[j2] = s.upper[j2];
            }
        }
        2 => {
            let j = r.below(d as u64) as usize;
            let (lo, hi) = (s.lower[j], s.upper[j]);
            s.lower[j] = hi;
            s.upper[j] = lo;
        }
        _ => {
            let j = r.below(d as u64) as usize;
            let (lo, hi) = (s.lower[j], s.upper[j]);
            s.lower[j] = hi;
            s.upper[j] = lo;
            let j2 = (j + 1) % d;
            if j2 != j {
                s.upper[j2] = s.lower[j2];
            }
        }
    }
    s.shift = (0..d).map(|i| s.lower[i]).collect();
    s
}

fn run_box(out: &mut Out, pools: &Pools, name: &str, spec: &Spec, cfg: &SolverConfig, seed: u64, so: Option<&So>, mo: Option<&Mo>) {
    let idx = out.next_index();
    if !out.wants(idx) {
        out.skip();
        return;
    }
    let inverted = (0..spec.lower.len()).any(|i| spec.lower[i] > spec.upper[i]);
    let human = format!(
        "{} on a {} box pop={} iters={} seed={} lower={:?} upper={:?}",
        name,
        if inverted { "INVERTED" } else { "DEGENERATE" },
        cfg.population_size,
        cfg.max_iterations,
        seed,
        spec.lower,
        spec.upper
    );
    let mut bad: Vec<String> = Vec::new();
    let panicked;
    if let Some(sv) = so {
        let p = Logged::new(spec);
        let c = cfg.clone();
        let pool = if seed % 2 == 0 { &pools.one } else { &pools.eight };
        match catch(std::panic::AssertUnwindSafe(|| pool.install(|| (sv.run)(&p, c, seed)))) {
            Ok(r) => {
                panicked = false;
                let bx = r.best_variables.as_slice().unwrap().to_vec();
                if !inverted {
                    if !spec.in_box(&bx) {
                        bad.push(format!("best_variables {:?} outside the degenerate box", bx));
                    }
                    if (spec.objective(&bx) + spec.penalty(&bx)).to_bits() != r.best_fitness.to_bits() {
                        bad.push("best_fitness != fitness(best_variables)".to_string());
                    }
                    if r.history.windows(2).any(|w| !(w[1] <= w[0])) {
                        bad.push("history worsens".to_string());
                    }
                }
            }
            Err(m) => {
                panicked = true;
                if !inverted {
                    bad.push(format!("panicked on a degenerate (lower == upper) box: {}", m));
                }
            }
        }
    } else {
        let sv = mo.unwrap();
        let p = LoggedMo { spec, nobj: 2, log: Mutex::new(Vec::new()) };
        let c = cfg.clone();
        match catch(std::panic::AssertUnwindSafe(|| pools.one.install(|| (sv.run)(&p, c, seed)))) {
            Ok(r) => {
                panicked = false;
                if !inverted && r.pareto_front.iter().any(|m| !spec.in_box(m.variables.as_slice().unwrap())) {
                    bad.push("front member outside the degenerate box".to_string());
                }
            }
            Err(m) => {
                panicked = true;
                if !inverted {
                    bad.push(format!("panicked on a degenerate (lower == upper) box: {}", m));
                }
            }
        }
    }
    out.count(if inverted {
        if panicked { "inverted_box_panicked" } else { "inverted_box_returned" }
    } else if panicked {
        "degenerate_box_panicked"
    } else {
        "degenerate_box_ok"
    });
    let g = format!(
        "(Box {} {}%nat {}%nat {})%Z",
        spec.g_bounds(),
        cfg.population_size,
        cfg.max_iterations,
        g_bool(panicked)
    );
    let i = out.case(g, human.clone(), true);
    if !bad.is_empty() {
        out.fail(i, &human, &bad.join("; "), None);
    }
}

fn main() {
    let args = parse_args();
    quiet_panics();
    let pools = Pools {
        one: rayon::ThreadPoolBuilder::new().num_threads(1).build().unwrap(),
        eight: rayon::ThreadPoolBuilder::new().num_threads(8).build().unwrap(),
    };
    let mut out = Out::new(&args, "From Verif Require Import Solver.", "Solver.case", "Solver.check_case", if args.thorough { 30 } else { 24 });
    out.rule = "every solver of samyama-optimization (25 single-objective solvers, Rao and QO-Rao in their 3 variants = 29 \
                runs; 4 multi-objective solvers, MO-BMWR in 3 variants = 6 runs) x generated box problems: dimension 1-6, \
                per-coordinate bounds asymmetric / one-sided / a few ulps or 1e-12 wide / up to 1e100 wide / pinned \
                (lower == upper), objective sphere, L1, Rastrigin, linear, step (ties) or negative, optimum inside or \
                outside the box, optional penalty; population 5-9, 1-7 iterations, seed from the run seed; each case is \
                run in a 1-thread rayon pool (evaluation log embedded in the case), an 8-thread pool and a second time \
                in the 1-thread pool. Separate stream: all-pinned, partly pinned and inverted boxes under catch. \
                Non-trivial = at least one iteration; distinct by case text."
        .to_string();
    out.notes.push(
        "classification by reading the source: greedy-per-individual = Jaya, Rao1-3, TLBO, BMR, BWR, BMWR, QOJaya, ITLBO, DE, \
         GOTLBO, HS, SAMP-Jaya, EHR-Jaya, QO-Rao1-3, SAPHR; archive-best = PSO, Firefly, Cuckoo, GWO, SA, Bat, ABC, GSA, FPA; \
         generational with carried elite = GA. All 25 single-objective solvers are elitist and get the monotone-history \
         claim. The 4 multi-objective solvers (NSGA-II, MOTLBO, MO-BMR/BWR/BMWR, MO-Rao+DE) record the first objective of the \
         top-ranked individual or a hypervolume, which is not a best-so-far value: no monotonicity claim is made for them \
         (counter class_multiobjective_no_monotone_claim; mo_history_not_monotone_observed counts runs where it indeed rose)."
            .to_string(),
    );
    let sos = so_solvers();
    let mos = mo_solvers();

    let per_solver = if args.thorough { 110 } else { 9 };
    let mut case_no: u64 = 0;
    for round in 0..per_solver {
        for (si, sv) in sos.iter().enumerate() {
            case_no += 1;
            let mut r = Rng::for_case(args.seed, case_no);
            let spec = gen_spec(&mut r, true);
            let cfg = SolverConfig {
                population_size: r.range(5, 9) as usize,
                max_iterations: if round == 0 && si % 5 == 0 { 1 } else { r.range(2, 7) as usize },
            };
            let seed = r.next() % 1_000_000;
            run_so(&mut out, &pools, sv, &spec, &cfg, seed);
        }
        for sv in mos.iter() {
            case_no += 1;
            let mut r = Rng::for_case(args.seed, case_no);
            let spec = gen_spec(&mut r, true);
            let cfg = SolverConfig { population_size: r.range(5, 9) as usize, max_iterations: r.range(1, 5) as usize };
            let nobj = if r.chance(1, 3) { 3 } else { 2 };
            let seed = r.next() % 1_000_000;
            run_mo(&mut out, &pools, sv, &spec, nobj, &cfg, seed);
        }
    }
    // degenerate and inverted boxes
    let box_rounds = if args.thorough { 12 } else { 2 };
    for round in 0..box_rounds {
        for kind in 0..4u64 {
            for sv in sos.iter() {
                case_no += 1;
                let mut r = Rng::for_case(args.seed, case_no);
                let spec = gen_bad_box(&mut r, kind);
                let cfg = SolverConfig { population_size: r.range(5, 8) as usize, max_iterations: r.range(1, 4) as usize };
                let seed = r.next() % 1_000_000 + round;
                run_box(&mut out, &pools, sv.name, &spec, &cfg, seed, Some(sv), None);
            }
            for sv in mos.iter() {
                case_no += 1;
                let mut r = Rng::for_case(args.seed, case_no);
                let spec = gen_bad_box(&mut r, kind);
                let cfg = SolverConfig { population_size: r.range(5, 8) as usize, max_iterations: r.range(1, 3) as usize };
                let seed = r.next() % 1_000_000;
                run_box(&mut out, &pools, sv.name, &spec, &cfg, seed, None, Some(sv));
            }
        }
    }
    out.finish();
}
