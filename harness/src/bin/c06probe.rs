//! temporary probe (w-store)
use samyama::graph::{GraphStore, NodeId};
fn main() {
    let mut s = GraphStore::new();
    let n: Vec<NodeId> = (0..6).map(|_| s.create_node("A")).collect();
    let e1 = s.create_edge(n[0], n[4], "T").unwrap();
    s.compact_adjacency();
    let e2 = s.create_edge(n[0], n[1], "T").unwrap();
    s.compact_adjacency();
    let e3 = s.create_edge(n[0], n[2], "T").unwrap();
    s.compact_adjacency();
    println!("{:?} {:?} {:?}", e1, e2, e3);
    for t in 0..6 {
        println!("edges_between(n0,n{}) = {:?}  edge_between = {:?}", t, s.edges_between(n[0], n[t], None), s.edge_between(n[0], n[t], None));
    }
    println!("frozen collected {:?}", s.frozen_outgoing_neighbors(1));
}
