//! C07 — versioned reads are stable, duplicate-free and respect deletion.
//!
//! Histories of create / set / remove property / version bump (begin+commit of a transaction) /
//! delete over <=3 nodes (+ fixed relationship regressions; relationship reads at volume are in c08). After every operation
//! every (node, version <= current+1) read, all_nodes ids, node_count and `MATCH (n) RETURN count(n)`
//! are observed; each read at a version older than the current one is re-checked against all its
//! earlier observations (the property's own predicate), and the dump is compared with the Gallina
//! model MvccReads.v.
use samyama::graph::{EdgeId, GraphStore, IsolationLevel, Label, NodeId, PropertyMap, PropertyValue};
use samyama::query::QueryEngine;
use std::collections::{BTreeMap, BTreeSet};
use vh::*;

type Row = Vec<u64>;

#[derive(Clone, Debug)]
enum Op {
    Create(Vec<(u64, u64)>),
    Set(u64, u64, u64),
    Remove(u64, u64),
    Bump,
    Delete(u64),
}

fn key(i: u64) -> String {
    format!("k{}", i)
}
fn g_ns(v: &[u64]) -> String {
    g_list(v.iter().map(|x| x.to_string()))
}
fn g_op(o: &Op, h: u64) -> String {
    match o {
        Op::Create(p) => format!("NCreate {} {}", h, g_list(p.iter().map(|(k, v)| format!("({}, {})", k, v)))),
        Op::Set(i, k, v) => format!("NSet {} {} {}", i, k, v),
        Op::Remove(i, k) => format!("NRemove {} {}", i, k),
        Op::Bump => "NBump".to_string(),
        Op::Delete(i) => format!("NDelete {}", i),
    }
}

fn enc_node(n: Option<&samyama::graph::Node>) -> Row {
    match n {
        None => vec![0],
        Some(n) => {
            let mut r = vec![1, n.version];
            let mut ps: Vec<(u64, u64)> = n
                .properties
                .iter()
                .map(|(k, v)| (k[1..].parse().unwrap_or(99), match v { PropertyValue::Integer(i) => *i as u64, _ => 999 }))
                .collect();
            ps.sort();
            for (k, v) in ps {
                r.push(k);
                r.push(v);
            }
            r
        }
    }
}

fn apply(s: &mut GraphStore, o: &Op) -> Row {
    match o {
        Op::Create(p) => {
            // sorted, duplicate-free property list (the model's canonical form)
            let mut m = PropertyMap::new();
            for (k, v) in p {
                m.insert(key(*k), PropertyValue::Integer(*v as i64));
            }
            let id = if m.is_empty() {
                s.create_node("L")
            } else {
                s.create_node_with_properties("default", vec![Label::new("L")], m)
            };
            vec![0, id.as_u64()]
        }
        Op::Set(i, k, v) => match s.set_node_property("default", NodeId::new(*i), key(*k), *v as i64) {
            Ok(_) => vec![1],
            Err(_) => vec![2],
        },
        Op::Remove(i, k) => {
            s.remove_node_property(NodeId::new(*i), &key(*k));
            vec![1]
        }
        Op::Bump => {
            let t = s.begin_transaction(IsolationLevel::SnapshotIsolation);
            match s.commit_transaction(t) {
                Ok(_) => vec![1],
                Err(_) => vec![2],
            }
        }
        Op::Delete(i) => match s.delete_node("default", NodeId::new(*i)) {
            Ok(_) => vec![1],
            Err(_) => vec![2],
        },
    }
}

fn count_via_engine(engine: &QueryEngine, s: &GraphStore) -> Option<u64> {
    let b = engine.execute("MATCH (n) RETURN count(n) AS c", s).ok()?;
    let rec = b.records.get(0)?;
    let v = rec.get("c")?;
    let t = format!("{:?}", v);
    let digits: String = t.chars().filter(|c| c.is_ascii_digit()).collect();
    digits.parse().ok()
}

fn run_case(out: &mut Out, engine: &QueryEngine, ops: &[Op]) {
    let idx = out.next_index();
    if !out.wants(idx) {
        out.skip();
        return;
    }
    let mut s = GraphStore::new();
    let mut maxid = 0u64;
    let mut steps = Vec::new();
    let mut bad: Option<(String, Option<&'static str>)> = None;
    // (id, version) -> first observation, and whether the id has been deleted since
    let mut seen: BTreeMap<(u64, u64), Row> = BTreeMap::new();
    let mut deleted_since: BTreeSet<u64> = BTreeSet::new();
    let mut live: BTreeSet<u64> = BTreeSet::new();
    let (mut multi, mut removed_cow, mut deleted_multi) = (false, false, false);
    for (i, o) in ops.iter().enumerate() {
        let before_versions = if let Op::Remove(n, _) = o { s.get_node(NodeId::new(*n)).map(|x| x.version) } else { None };
        let got = apply(&mut s, o);
        match o {
            Op::Create(_) => {
                maxid = maxid.max(got[1]);
                if live.contains(&got[1]) && bad.is_none() {
                    bad = Some((format!("step {}: create handed out live id {}", i, got[1]), None));
                }
                live.insert(got[1]);
                // a recycled id starts a new entity: its earlier observations are not its past
                seen.retain(|(id, _), _| *id != got[1]);
                deleted_since.remove(&got[1]);
            }
            Op::Delete(n) if got == vec![1] => {
                if s.get_node_at_version(NodeId::new(*n), 0).is_none() && seen.keys().filter(|(id, _)| id == n).count() > 2 {
                    deleted_multi = true;
                }
                live.remove(n);
                deleted_since.insert(*n);
            }
            Op::Remove(n, _) => {
                if let (Some(b), Some(a)) = (before_versions, s.get_node(NodeId::new(*n)).map(|x| x.version)) {
                    if a > b {
                        removed_cow = true;
                    }
                }
            }
            _ => {}
        }
        let cur = s.current_version;
        let mut rows: Vec<Row> = Vec::new();
        for id in 0..=maxid {
            for v in 0..=cur + 1 {
                let r = enc_node(s.get_node_at_version(NodeId::new(id), v));
                if v < cur {
                    match seen.get(&(id, v)) {
                        Some(old) if *old != r => {
                            let known = if deleted_since.contains(&id) { Some("past-of-deleted-node") } else { None };
                            if bad.is_none() || (known.is_none() && bad.as_ref().map_or(false, |b| b.1.is_some())) {
                                bad = Some((
                                    format!("step {} {:?}: read of node {} at version {} was {:?}, is now {:?} (current version {})", i, o, id, v, old, r, cur),
                                    known,
                                ));
                            }
                        }
                        Some(_) => {}
                        None => {
                            seen.insert((id, v), r.clone());
                        }
                    }
                }
                if r.len() > 1 && r[1] > 1 {
                    multi = true;
                }
                rows.push(r);
            }
        }
        let mut ids: Row = s.all_nodes().iter().map(|n| n.id.as_u64()).collect();
        ids.sort();
        let expect: Row = live.iter().cloned().collect();
        let cnt = s.node_count() as u64;
        // an unknown failure takes precedence over a known-class one
        if bad.as_ref().map_or(true, |b| b.1.is_some()) {
            if ids != expect {
                bad = Some((format!("step {} {:?}: all_nodes ids {:?}, live entities {:?}", i, o, ids, expect), None));
            } else if cnt != expect.len() as u64 {
                bad = Some((format!("step {} {:?}: node_count {} but {} live entities", i, o, cnt, expect.len()), None));
            } else if let Some(c) = count_via_engine(engine, &s) {
                if c != expect.len() as u64 {
                    bad = Some((format!("step {} {:?}: MATCH (n) RETURN count(n) = {} but {} live entities", i, o, c, expect.len()), None));
                }
            } else {
                bad = Some((format!("step {} {:?}: MATCH (n) RETURN count(n) failed", i, o), None));
            }
            for n in &deleted_since {
                if s.get_node(NodeId::new(*n)).is_some() {
                    bad = Some((format!("step {} {:?}: deleted node {} is readable at the current version", i, o, n), None));
                }
            }
        }
        rows.push(ids);
        rows.push(vec![cnt, cur]);
        let h = if let Op::Create(_) = o { got[1] } else { 0 };
        steps.push(format!("({}, {}, {}, {})", g_op(o, h), g_ns(&got), maxid, g_list(rows.iter().map(|r| g_ns(r)))));
    }
    if multi {
        out.count("multi_version_node");
    }
    if removed_cow {
        out.count("remove_copied_on_write");
    }
    if deleted_multi {
        out.count("deleted_multi_version_node");
    }
    out.count_n("ops", ops.len() as u64);
    let human = g_list(ops.iter().map(|o| g_op(o, 0)));
    let ci = out.case(g_list(steps), human.clone(), ops.len() > 1);
    if let Some((b, k)) = bad {
        out.fail(ci, &human, &b, k);
    }
}

/// Replay the stored witness of the recorded defect on the implementation.
fn replay_known(out: &mut Out) {
    // 1. the past of a deleted node
    let mut s = GraphStore::new();
    let a = s.create_node("L");
    s.set_node_property("default", a, "k0", 5i64).unwrap();
    let t = s.begin_transaction(IsolationLevel::SnapshotIsolation);
    s.commit_transaction(t).unwrap();
    let before = enc_node(s.get_node_at_version(a, 1));
    s.delete_node("default", a).unwrap();
    let after = enc_node(s.get_node_at_version(a, 1));
    out.known.push(KnownReplay {
        class: "past-of-deleted-node".to_string(),
        still_fails: before != after,
        detail: format!("create node, set k0=5 at v1, commit (v2), delete: read at v1 was {:?}, is {:?}", before, after),
    });
}

/// The relationship-log defect that used to be recorded (no pre-image before the first update,
/// no creation version) is repaired: its witnesses are now ordinary checks. Relationship reads
/// of the past are covered at volume by c08 (same store model, Mvcc.v).
fn edge_regressions(out: &mut Out) {
    let rd = |s: &GraphStore, e: EdgeId, v: u64| -> Option<Vec<(String, String)>> {
        s.get_edge_at_version(e, v).map(|x| {
            let mut p: Vec<(String, String)> = x.properties.iter().map(|(k, v)| (k.clone(), format!("{:?}", v))).collect();
            p.sort();
            p
        })
    };
    // created at v1, first update at v2: the read at v1 keeps the as-created properties
    let mut s = GraphStore::new();
    let a = s.create_node("L");
    let b = s.create_node("L");
    let e = s.create_edge(a, b, "T").unwrap();
    let t = s.begin_transaction(IsolationLevel::SnapshotIsolation);
    s.commit_transaction(t).unwrap();
    let before = rd(&s, e, 1);
    s.set_edge_property(e, "k0", 5i64).unwrap();
    let after = rd(&s, e, 1);
    if before != after || before != Some(vec![]) {
        out.fail(0, "relationship created at v1, commit (v2), set k0=5", &format!("get_edge_at_version(e, 1) was {:?}, is {:?}", before, after), None);
    }
    // created at v2: unreadable at v1 before and after creation and after its first update
    let e2_before = rd(&s, EdgeId::new(e.as_u64() + 1), 1);
    let e2 = s.create_edge(b, a, "T").unwrap();
    let at1 = rd(&s, e2, 1);
    let t = s.begin_transaction(IsolationLevel::SnapshotIsolation);
    s.commit_transaction(t).unwrap();
    let at2 = rd(&s, e2, 2);
    s.set_edge_property(e2, "k1", 7i64).unwrap();
    if e2_before.is_some() || at1.is_some() || rd(&s, e2, 1).is_some() || at2 != Some(vec![]) || rd(&s, e2, 2) != at2 {
        out.fail(
            0,
            "relationship created at v2, commit (v3), set k1=7",
            &format!("reads at v1: {:?} / {:?} / {:?}; at v2: {:?} then {:?}", e2_before, at1, rd(&s, e2, 1), at2, rd(&s, e2, 2)),
            None,
        );
    }
}

/// Relationship histories driven through the query engine (`execute_mut`): relationships created
/// by CREATE / MERGE with properties, updated by SET r.k / SET r += / SET r = / REMOVE r.k,
/// interleaved with version bumps. After every statement every (relationship, version <=
/// current+1) read is taken; a read at a version older than the current one must (a) never
/// change afterwards and (b) equal the state the relationship had at the end of that version
/// (the harness records the state read at the current version after every statement).
/// These cases have no node operations: the Coq side sees an empty history.
#[derive(Clone, Debug)]
enum ROp {
    Create(u64, Vec<(u64, u64)>), // CREATE (a)-[:R<i> {props}]->(b)
    Merge(u64, Vec<(u64, u64)>),  // MERGE (a)-[:R<i> {props}]->(b)
    SetProp(u64, u64, u64),       // SET r.k = v
    SetPlus(u64, Vec<(u64, u64)>),
    SetAll(u64, Vec<(u64, u64)>),
    Remove(u64, u64),
    Bump,
}

fn cy_map(p: &[(u64, u64)]) -> String {
    format!("{{{}}}", p.iter().map(|(k, v)| format!("k{}: {}", k, v)).collect::<Vec<_>>().join(", "))
}
fn cy(o: &ROp) -> Option<String> {
    Some(match o {
        ROp::Create(t, p) => format!("MATCH (a:L {{uid: 1}}), (b:L {{uid: 2}}) CREATE (a)-[r:R{} {}]->(b)", t, cy_map(p)),
        ROp::Merge(t, p) => format!("MATCH (a:L {{uid: 1}}), (b:L {{uid: 2}}) MERGE (a)-[r:R{} {}]->(b)", t, cy_map(p)),
        ROp::SetProp(t, k, v) => format!("MATCH ()-[r:R{}]->() SET r.k{} = {}", t, k, v),
        ROp::SetPlus(t, p) => format!("MATCH ()-[r:R{}]->() SET r += {}", t, cy_map(p)),
        ROp::SetAll(t, p) => format!("MATCH ()-[r:R{}]->() SET r = {}", t, cy_map(p)),
        ROp::Remove(t, k) => format!("MATCH ()-[r:R{}]->() REMOVE r.k{}", t, k),
        ROp::Bump => return None,
    })
}

type ERead = Option<(u64, Vec<(u64, u64)>)>;
fn read_rel(s: &GraphStore, id: u64, v: u64) -> ERead {
    s.get_edge_at_version(EdgeId::new(id), v).map(|e| {
        let mut ps: Vec<(u64, u64)> = e
            .properties
            .iter()
            .map(|(k, v)| (k[1..].parse().unwrap_or(99), match v { PropertyValue::Integer(i) => *i as u64, _ => 999 }))
            .collect();
        ps.sort();
        (e.version, ps)
    })
}

fn run_rel_case(out: &mut Out, engine: &QueryEngine, ops: &[ROp]) {
    let idx = out.next_index();
    if !out.wants(idx) {
        out.skip();
        return;
    }
    let mut s = GraphStore::new();
    let mut bad: Option<String> = None;
    if engine.execute_mut("CREATE (a:L {uid: 1}), (b:L {uid: 2})", &mut s, "default").is_err() {
        bad = Some("setup statement failed".to_string());
    }
    const MAXE: u64 = 3;
    // first observation of a read of the past
    let mut seen: BTreeMap<(u64, u64), ERead> = BTreeMap::new();
    // state (properties, None = does not exist) of each relationship at the end of each version
    let mut state_at: BTreeMap<(u64, u64), Option<Vec<(u64, u64)>>> = BTreeMap::new();
    let (mut late_create, mut removed, mut updated_late) = (false, false, false);
    for (i, o) in ops.iter().enumerate() {
        let cur_before = s.current_version;
        match cy(o) {
            Some(q) => {
                let before: Vec<ERead> = (1..=MAXE).map(|e| read_rel(&s, e, cur_before)).collect();
                if let Err(e) = engine.execute_mut(&q, &mut s, "default") {
                    bad.get_or_insert(format!("step {}: `{}` failed: {}", i, q, e));
                }
                let after: Vec<ERead> = (1..=MAXE).map(|e| read_rel(&s, e, cur_before)).collect();
                for e in 0..MAXE as usize {
                    if before[e].is_none() && after[e].is_some() && cur_before > 1 {
                        late_create = true;
                    }
                    if let (Some(b), Some(a)) = (&before[e], &after[e]) {
                        if a.1.len() < b.1.len() {
                            removed = true;
                        }
                        if a.1 != b.1 && cur_before > 1 {
                            updated_late = true;
                        }
                    }
                }
            }
            None => {
                let t = s.begin_transaction(IsolationLevel::SnapshotIsolation);
                if s.commit_transaction(t).is_err() {
                    bad.get_or_insert(format!("step {}: version bump failed", i));
                }
            }
        }
        let cur = s.current_version;
        for e in 1..=MAXE {
            // the state now is the state at the end of the current version (so far)
            state_at.insert((e, cur), read_rel(&s, e, cur).map(|r| r.1));
            for v in 0..cur {
                let r = read_rel(&s, e, v);
                match seen.get(&(e, v)) {
                    Some(old) if *old != r => {
                        bad.get_or_insert(format!(
                            "step {} {:?}: read of relationship {} at version {} was {:?}, is now {:?} (current version {})",
                            i, o, e, v, old, r, cur
                        ));
                    }
                    Some(_) => {}
                    None => {
                        seen.insert((e, v), r.clone());
                    }
                }
                // as-of: the last recorded state at a version <= v (None before the first one)
                let want = (1..=v).rev().find_map(|w| state_at.get(&(e, w))).cloned().unwrap_or(None);
                if r.as_ref().map(|x| x.1.clone()) != want {
                    bad.get_or_insert(format!(
                        "step {} {:?}: relationship {} read at version {} gives {:?} but its state at the end of that version was {:?} (current version {})",
                        i, o, e, v, r, want, cur
                    ));
                }
            }
        }
    }
    if late_create {
        out.count("cypher_rel_created_after_v1");
    }
    if removed {
        out.count("cypher_rel_property_removed");
    }
    if updated_late {
        out.count("cypher_rel_updated_after_v1");
    }
    out.count("cypher_rel_history");
    let human = format!("cypher-rel {:?}", ops);
    let ci = out.case("[]".to_string(), human.clone(), ops.len() > 1);
    if let Some(b) = bad {
        out.fail(ci, &human, &b, None);
    }
}

fn rel_cases(out: &mut Out, engine: &QueryEngine, args: &Args) {
    // exhaustive: relationship 1 created at version 1, then every history of <=L letters
    let alphabet = vec![
        ROp::Bump,
        ROp::SetProp(1, 0, 2),
        ROp::SetPlus(1, vec![(1, 3)]),
        ROp::SetAll(1, vec![(1, 4)]),
        ROp::Remove(1, 0),
        ROp::Create(2, vec![(0, 5)]),
        ROp::SetProp(2, 1, 6),
        ROp::Merge(3, vec![(0, 7)]),
    ];
    let maxlen = if args.thorough { 5 } else { 4 };
    for len in 1..=maxlen {
        let total = (alphabet.len() as u64).pow(len as u32);
        for code in 0..total {
            if len == maxlen && code % 2 != args.seed % 2 {
                continue;
            }
            let mut seq = vec![ROp::Create(1, vec![(0, 1)])];
            let mut c = code;
            for _ in 0..len {
                seq.push(alphabet[(c % alphabet.len() as u64) as usize].clone());
                c /= alphabet.len() as u64;
            }
            run_rel_case(out, engine, &seq);
        }
    }
    let n = if args.thorough { 2000 } else { 300 };
    for c in 0..n {
        let mut r = Rng::for_case(args.seed ^ 0xC07E, c);
        let nops = r.range(4, 24);
        let mut made = [false; 4];
        let mut ops = Vec::new();
        for _ in 0..nops {
            let t = r.range(1, 3);
            let props = |r: &mut Rng| -> Vec<(u64, u64)> {
                let mut p = Vec::new();
                if r.chance(1, 2) {
                    p.push((0, r.range(1, 5)));
                }
                if r.chance(1, 2) {
                    p.push((1, r.range(1, 5)));
                }
                p
            };
            let o = match r.below(12) {
                0..=2 => ROp::Bump,
                3 | 4 if !made[t as usize] => {
                    made[t as usize] = true;
                    if r.chance(2, 3) {
                        ROp::Create(t, props(&mut r))
                    } else {
                        ROp::Merge(t, props(&mut r))
                    }
                }
                3..=6 => ROp::SetProp(t, r.below(2), r.range(1, 5)),
                7 => ROp::SetPlus(t, props(&mut r)),
                8 => ROp::SetAll(t, props(&mut r)),
                _ => ROp::Remove(t, r.below(2)),
            };
            ops.push(o);
        }
        run_rel_case(out, engine, &ops);
    }
}

fn main() {
    let args = parse_args();
    quiet_panics();
    let engine = QueryEngine::new();
    let mut out = Out::new(&args, "From Verif Require Import Mvcc MvccReads.", "MvccReads.case", "MvccReads.check_case", 300);
    out.rule = "exhaustive: every history of length 1..L (L=5 quick, 6 thorough) over a 7-operation alphabet on two nodes \
                (create, set k0 on node 1, set k1 on node 1, remove k0 from node 1, version bump by a transaction commit, delete node 1, \
                set k0 on node 2) after one node creation; random: histories of <=30 operations over <=3 nodes and 2 keys. After every \
                operation every (node, version <= current+1) read, all_nodes ids, node_count and MATCH (n) RETURN count(n). \
                Non-trivial = more than one operation; distinct by operation list."
        .to_string();
    let alphabet = vec![Op::Create(vec![(0, 1)]), Op::Set(1, 0, 2), Op::Set(1, 1, 3), Op::Remove(1, 0), Op::Bump, Op::Delete(1), Op::Set(2, 0, 4)];
    let maxlen = if args.thorough { 6 } else { 5 };
    for len in 1..=maxlen {
        let total = (alphabet.len() as u64).pow(len as u32);
        for code in 0..total {
            // the longest length is sampled 1 in 3, rotating with the seed
            if len == maxlen && code % 3 != args.seed % 3 {
                continue;
            }
            let mut seq = vec![Op::Create(vec![])];
            let mut c = code;
            for _ in 0..len {
                seq.push(alphabet[(c % alphabet.len() as u64) as usize].clone());
                c /= alphabet.len() as u64;
            }
            run_case(&mut out, &engine, &seq);
        }
    }
    let n = if args.thorough { 3000 } else { 300 };
    for c in 0..n {
        let mut r = Rng::for_case(args.seed, c);
        let nops = r.range(3, 30);
        let mut creates = 0;
        let ops: Vec<Op> = (0..nops)
            .map(|_| loop {
                let o = match r.below(12) {
                    0 | 1 if creates < 5 => {
                        creates += 1;
                        let mut p: Vec<(u64, u64)> = Vec::new();
                        if r.chance(1, 2) {
                            p.push((0, r.range(1, 5)));
                        }
                        if r.chance(1, 3) {
                            p.push((1, r.range(1, 5)));
                        }
                        Op::Create(p)
                    }
                    2..=4 => Op::Set(r.range(1, 3), r.below(2), r.range(1, 5)),
                    5 | 6 => Op::Remove(r.range(1, 3), r.below(2)),
                    7..=9 => Op::Bump,
                    10 => Op::Delete(r.range(1, 3)),
                    _ => continue,
                };
                break o;
            })
            .collect();
        run_case(&mut out, &engine, &ops);
    }
    rel_cases(&mut out, &engine, &args);
    replay_known(&mut out);
    edge_regressions(&mut out);
    out.finish();
}
