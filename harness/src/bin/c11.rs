//! probe (temporary)
use samyama::graph::GraphStore;
use samyama::query::QueryEngine;

fn run(e: &QueryEngine, s: &mut GraphStore, q: &str) {
    let r = vh::catch(std::panic::AssertUnwindSafe(|| e.execute_mut(q, s, "default").map(|b| {
        b.records.iter().map(|r| format!("{:?}", b.columns.iter().map(|c| r.get(c).map(|v| format!("{:?}", v))).collect::<Vec<_>>())).collect::<Vec<_>>()
    }).map_err(|e| e.to_string())));
    println!("  {:<50} -> {:?}", q, r);
}
fn main() {
    vh::quiet_panics();
    let scen: Vec<Vec<&str>> = vec![
        vec!["CREATE CONSTRAINT ON (n:L) ASSERT n.k IS UNIQUE", "CREATE (:L {k: 1})", "CREATE (:L {k: 1})", "MATCH (n:L) SET n.k = 2", "CREATE (:L {k: 1})", "MATCH (n:L) RETURN n.k"],
        vec!["CREATE CONSTRAINT ON (n:L) ASSERT n.k IS UNIQUE", "CREATE (:L {k: 1})", "MATCH (n:L) REMOVE n.k", "CREATE (:L {k: 1})", "MATCH (n:L) RETURN n.k"],
        vec!["CREATE CONSTRAINT ON (n:L) ASSERT n.k IS UNIQUE", "CREATE (:L {k: 1})", "MATCH (n:L) REMOVE n:L", "CREATE (:L {k: 1})", "MATCH (n:L) RETURN n.k"],
        vec!["CREATE CONSTRAINT ON (n:L) ASSERT n.k IS UNIQUE", "CREATE (:L {k: 1})", "MATCH (n:L) DELETE n", "CREATE (:L {k: 1})", "MATCH (n:L) RETURN n.k"],
        vec!["CREATE CONSTRAINT ON (n:L) ASSERT n.k IS UNIQUE", "CREATE (:L {k: 1})", "CREATE (:M {k: 1})", "MATCH (n:M) SET n:L", "MATCH (n:L) RETURN n.k"],
        vec!["CREATE CONSTRAINT ON (n:L) ASSERT n.k IS UNIQUE", "CREATE (:L {k: 1})", "CREATE (:L {k: 1.0})", "CREATE (:L {k: 'a'})", "CREATE (:L {k: 'a '})", "CREATE (:L {k: null})", "CREATE (:L {k: null})", "CREATE (:L)", "MATCH (n:L) RETURN n.k"],
        vec!["CREATE (:L {k: 1})", "CREATE (:L {k: 1})", "CREATE CONSTRAINT ON (n:L) ASSERT n.k IS UNIQUE", "MATCH (n:L) RETURN n.k"],
        vec!["CREATE (:L {k: 1})", "CREATE (:L {k: 1.0})", "CREATE CONSTRAINT ON (n:L) ASSERT n.k IS UNIQUE", "MATCH (n:L) RETURN n.k"],
        vec!["CREATE CONSTRAINT ON (n:L) ASSERT n.k IS UNIQUE", "CREATE (:L {k: 1})", "CREATE (:L {k: 2})", "MATCH (n:L) WHERE n.k = 2 SET n.k = 1", "MATCH (n:L) SET n.k = n.k", "MATCH (n:L) RETURN n.k"],
        vec!["CREATE CONSTRAINT ON (n:L) ASSERT n.k IS UNIQUE", "CREATE (:L {k: 1})", "MATCH (n:L) SET n.k = null", "CREATE (:L {k: 1})", "MATCH (n:L) RETURN n.k"],
        vec!["CREATE CONSTRAINT ON (n:L) ASSERT n.k IS UNIQUE", "CREATE (:L {k: 1})", "MATCH (n:L) SET n = {j: 5}", "CREATE (:L {k: 1})", "MATCH (n:L) RETURN n.k"],
        vec!["CREATE CONSTRAINT ON (n:L) ASSERT n.k IS UNIQUE", "MERGE (:L {k: 1})", "MERGE (:L {k: 1})", "CREATE (:L {k: 1})", "MATCH (n:L) RETURN n.k"],
        vec!["CREATE CONSTRAINT ON (n:L) ASSERT n.k IS UNIQUE", "CREATE (:L {k: 1}), (:L {k: 1})", "MATCH (n:L) RETURN n.k"],
        vec!["CREATE CONSTRAINT ON (n:L) ASSERT n.k IS UNIQUE", "CREATE (:L {k: 1})-[:R]->(:L {k: 1})", "MATCH (n:L) RETURN n.k"],
        vec!["CREATE CONSTRAINT ON (n:L) ASSERT n.k IS UNIQUE", "CREATE (:L {k: 1})", "CREATE (:L {k: 2})", "MATCH (n:L) SET n.k = 3", "MATCH (n:L) RETURN n.k"],
    ];
    for sc in scen {
        println!("---");
        let e = QueryEngine::new();
        let mut s = GraphStore::new();
        for q in sc { run(&e, &mut s, q); }
    }
    // column-only node (stub path) then constraint backfill
    println!("--- stub/column path");
    let e = QueryEngine::new();
    let mut s = GraphStore::new();
    let id = s.create_node_stub("L");
    s.node_columns.set_property(id.as_u64() as usize, "k", samyama::graph::PropertyValue::Integer(1));
    for q in ["MATCH (n:L) RETURN n.k", "CREATE CONSTRAINT ON (n:L) ASSERT n.k IS UNIQUE", "CREATE (:L {k: 1})", "MATCH (n:L) RETURN n.k"] { run(&e, &mut s, q); }
}
