//! C11 — unique constraints reject exactly the duplicates.
//!
//! Statement histories (CREATE CONSTRAINT / CREATE / SET / REMOVE / SET :L / REMOVE :L / DELETE)
//! are run through `QueryEngine::execute_mut` (MutQueryExecutor) on a fresh store; after every
//! statement the result class and the whole graph (`MATCH (n) RETURN …`) are observed.
//! The property's own predicate is evaluated against a plain Rust reference graph: a write is
//! refused iff it would leave two live nodes of a constrained label with equal values, a refused
//! write changes nothing, an accepted one has exactly its effect, and no such pair ever exists.
//! The same observations are printed as a Gallina case for coq/model/Constraint.v.
use samyama::graph::{GraphStore, PropertyValue};
use samyama::query::executor::record::Value;
use samyama::query::QueryEngine;
use std::collections::{BTreeMap, BTreeSet};
use vh::*;

const LABELS: [&str; 2] = ["L", "M"]; // codes 1, 2
const KEYS: [&str; 2] = ["k", "j"]; // codes 1, 2

/// value codes 1..=6 (two values share a code iff they are equal as BTreeMap keys)
fn lit(code: u64) -> &'static str {
    match code {
        1 => "1",
        2 => "2",
        3 => "3",
        4 => "1.0",
        5 => "'a'",
        6 => "'a '",
        _ => unreachable!(),
    }
}
fn pv_of(code: u64) -> PropertyValue {
    match code {
        1 => PropertyValue::Integer(1),
        2 => PropertyValue::Integer(2),
        3 => PropertyValue::Integer(3),
        4 => PropertyValue::Float(1.0),
        5 => PropertyValue::String("a".into()),
        6 => PropertyValue::String("a ".into()),
        _ => unreachable!(),
    }
}
fn code_of(v: &PropertyValue) -> Option<Option<u64>> {
    if v.is_null() {
        return Some(None);
    }
    for c in 1..=6 {
        let p = pv_of(c);
        let same_type = std::mem::discriminant(&p) == std::mem::discriminant(v);
        if same_type && p == *v {
            return Some(Some(c));
        }
    }
    None
}

#[derive(Clone, Debug, PartialEq)]
enum Op {
    Constraint(u64, u64),
    Create(Vec<u64>, Vec<(u64, u64)>),
    Set(u64, u64, Option<u64>),
    RemoveProp(u64, u64),
    AddLabel(u64, u64),
    RemoveLabel(u64, u64),
    Delete(u64),
}

fn g_op(o: &Op) -> String {
    let l = |v: &Vec<u64>| g_list(v.iter().map(|x| x.to_string()));
    match o {
        Op::Constraint(a, b) => format!("CreateConstraint {} {}", a, b),
        Op::Create(ls, ps) => format!("CreateNode {} {}", l(ls), g_list(ps.iter().map(|(k, v)| format!("({}, {})", k, v)))),
        Op::Set(i, k, v) => format!("SetProp {} {} {}", i, k, g_opt(v.map(|x| x.to_string()))),
        Op::RemoveProp(i, k) => format!("RemoveProp {} {}", i, k),
        Op::AddLabel(i, l) => format!("AddLabel {} {}", i, l),
        Op::RemoveLabel(i, l) => format!("RemoveLabel {} {}", i, l),
        Op::Delete(i) => format!("Delete {}", i),
    }
}

fn cypher(o: &Op, tag: u64) -> String {
    let lab = |c: u64| LABELS[c as usize - 1];
    let key = |c: u64| KEYS[c as usize - 1];
    match o {
        Op::Constraint(l, k) => format!("CREATE CONSTRAINT ON (n:{}) ASSERT n.{} IS UNIQUE", lab(*l), key(*k)),
        Op::Create(ls, ps) => {
            let mut s = String::from("CREATE (");
            for l in ls {
                s.push_str(&format!(":{}", lab(*l)));
            }
            s.push_str(&format!(" {{t: {}", tag));
            for (k, v) in ps {
                s.push_str(&format!(", {}: {}", key(*k), lit(*v)));
            }
            s.push_str("})");
            s
        }
        Op::Set(i, k, v) => format!("MATCH (n {{t: {}}}) SET n.{} = {}", i, key(*k), v.map_or("null", lit)),
        Op::RemoveProp(i, k) => format!("MATCH (n {{t: {}}}) REMOVE n.{}", i, key(*k)),
        Op::AddLabel(i, l) => format!("MATCH (n {{t: {}}}) SET n:{}", i, lab(*l)),
        Op::RemoveLabel(i, l) => format!("MATCH (n {{t: {}}}) REMOVE n:{}", i, lab(*l)),
        Op::Delete(i) => format!("MATCH (n {{t: {}}}) DELETE n", i),
    }
}

// ---------------------------------------------------------------- reference graph (the oracle)
#[derive(Clone, Debug, PartialEq, Default)]
struct RefNode {
    labels: BTreeSet<u64>,
    props: BTreeMap<u64, u64>,
}
#[derive(Clone, Debug, PartialEq, Default)]
struct RefGraph {
    nodes: BTreeMap<u64, RefNode>,
    cons: BTreeSet<(u64, u64)>,
}
impl RefGraph {
    /// two live nodes of a constrained label with equal values for the constrained key
    fn duplicate(&self) -> Option<(u64, u64, u64, u64, u64)> {
        for &(l, k) in &self.cons {
            let mut seen: BTreeMap<u64, u64> = BTreeMap::new();
            for (id, n) in &self.nodes {
                if n.labels.contains(&l) {
                    if let Some(v) = n.props.get(&k) {
                        if let Some(other) = seen.insert(*v, *id) {
                            return Some((l, k, *v, other, *id));
                        }
                    }
                }
            }
        }
        None
    }
    /// the graph the statement asks for, constraints not considered
    fn wanted(&self, o: &Op, tag: u64) -> RefGraph {
        let mut g = self.clone();
        match o {
            Op::Constraint(l, k) => {
                g.cons.insert((*l, *k));
            }
            Op::Create(ls, ps) => {
                let mut n = RefNode::default();
                n.labels = ls.iter().cloned().collect();
                for (k, v) in ps {
                    n.props.insert(*k, *v);
                }
                g.nodes.insert(tag, n);
            }
            Op::Set(i, k, v) => {
                if let Some(n) = g.nodes.get_mut(i) {
                    match v {
                        Some(x) => {
                            n.props.insert(*k, *x);
                        }
                        None => {
                            n.props.remove(k);
                        }
                    }
                }
            }
            Op::RemoveProp(i, k) => {
                if let Some(n) = g.nodes.get_mut(i) {
                    n.props.remove(k);
                }
            }
            Op::AddLabel(i, l) => {
                if let Some(n) = g.nodes.get_mut(i) {
                    n.labels.insert(*l);
                }
            }
            Op::RemoveLabel(i, l) => {
                if let Some(n) = g.nodes.get_mut(i) {
                    n.labels.remove(l);
                }
            }
            Op::Delete(i) => {
                g.nodes.remove(i);
            }
        }
        g
    }
}

// ---------------------------------------------------------------- the implementation
#[derive(Clone, Debug, PartialEq)]
enum Class {
    Ok,
    Violation,
    Refused,
    Other(String),
}

fn exec(e: &QueryEngine, s: &mut GraphStore, q: &str) -> Class {
    let r = catch(std::panic::AssertUnwindSafe(|| e.execute_mut(q, s, "default").map(|_| ()).map_err(|e| e.to_string())));
    match r {
        Err(p) => Class::Other(format!("panic: {}", p)),
        Ok(Ok(())) => Class::Ok,
        Ok(Err(m)) => {
            if m.contains("onstraint violation") {
                Class::Violation
            } else if m.contains("Cannot create unique constraint") {
                Class::Refused
            } else {
                Class::Other(m)
            }
        }
    }
}

/// (tag, hasL, hasM, k, j) for every node, ordered by tag; Err on anything unreadable
fn observe(e: &QueryEngine, s: &mut GraphStore) -> Result<Vec<(u64, bool, bool, Option<u64>, Option<u64>)>, String> {
    let b = e
        .execute_mut("MATCH (n) RETURN n.t AS t, n.k AS k, n.j AS j, n:L AS l, n:M AS m", s, "default")
        .map_err(|e| format!("observation query failed: {}", e))?;
    let mut v = Vec::new();
    for r in &b.records {
        let p = |c: &str| -> Result<PropertyValue, String> {
            match r.get(c) {
                Some(Value::Property(p)) => Ok(p.clone()),
                Some(Value::Null) => Ok(PropertyValue::Null),
                other => Err(format!("column {} is {:?}", c, other)),
            }
        };
        let t = match p("t")? {
            PropertyValue::Integer(i) => i as u64,
            o => return Err(format!("tag is {:?}", o)),
        };
        let bl = |c: &str| -> Result<bool, String> {
            match p(c)? {
                PropertyValue::Boolean(b) => Ok(b),
                o => Err(format!("label test {} is {:?}", c, o)),
            }
        };
        let k = code_of(&p("k")?).ok_or_else(|| format!("k of node {} is outside the domain: {:?}", t, p("k")))?;
        let j = code_of(&p("j")?).ok_or_else(|| format!("j of node {} is outside the domain: {:?}", t, p("j")))?;
        v.push((t, bl("l")?, bl("m")?, k, j));
    }
    v.sort();
    Ok(v)
}

fn ref_obs(g: &RefGraph) -> Vec<(u64, bool, bool, Option<u64>, Option<u64>)> {
    g.nodes
        .iter()
        .map(|(id, n)| (*id, n.labels.contains(&1), n.labels.contains(&2), n.props.get(&1).cloned(), n.props.get(&2).cloned()))
        .collect()
}

fn g_obs(c: &Class, v: &[(u64, bool, bool, Option<u64>, Option<u64>)]) -> String {
    let r = match c {
        Class::Ok => "ROk",
        Class::Violation => "RViolation",
        Class::Refused | Class::Other(_) => "RRefused",
    };
    format!(
        "({}, {})",
        r,
        g_list(v.iter().map(|(t, l, m, k, j)| format!(
            "({}, {}, {}, {}, {})",
            t,
            g_bool(*l),
            g_bool(*m),
            g_opt(k.map(|x| x.to_string())),
            g_opt(j.map(|x| x.to_string()))
        )))
    )
}

/// Run one history. `stub_prefix`: leading single-label CREATEs (before any constraint) are loaded
/// through the stub/column path (create_node_stub + column writes), as a bulk load does.
fn run_case(out: &mut Out, engine: &QueryEngine, ops: &[Op], stub_prefix: bool, kind: &str) {
    let idx = out.next_index();
    if !out.wants(idx) {
        out.skip();
        return;
    }
    let mut store = GraphStore::new();
    let mut g = RefGraph::default();
    let mut tag = 0u64;
    let mut obs_terms = Vec::new();
    let mut bad: Option<String> = None;
    let mut texts = Vec::new();
    let mut still_prefix = stub_prefix;
    let (mut n_viol, mut n_refused, mut n_after_change) = (0, 0, 0);
    let mut changed_value = false;
    for o in ops {
        if let Op::Create(..) = o {
            tag += 1;
        }
        let q = cypher(o, tag);
        let via_stub = still_prefix && matches!(o, Op::Create(ls, _) if ls.len() == 1);
        if !via_stub {
            still_prefix = false;
        }
        let class = if via_stub {
            if let Op::Create(ls, ps) = o {
                let id = store.create_node_stub(LABELS[ls[0] as usize - 1]);
                let i = id.as_u64() as usize;
                store.node_columns.set_property(i, "t", PropertyValue::Integer(tag as i64));
                for (k, v) in ps {
                    store.node_columns.set_property(i, KEYS[*k as usize - 1], pv_of(*v));
                }
            }
            texts.push(format!("[stub] {}", q));
            Class::Ok
        } else {
            texts.push(q.clone());
            exec(engine, &mut store, &q)
        };
        // ---- the property's predicate, against the reference graph
        let wanted = g.wanted(o, tag);
        let expect_refusal = wanted.duplicate();
        match (&class, &expect_refusal) {
            (Class::Other(m), _) => bad = bad.or(Some(format!("`{}` failed unexpectedly: {}", q, m))),
            (Class::Ok, Some(d)) => {
                bad = bad.or(Some(format!(
                    "`{}` was accepted although nodes {} and {} of label {} would both hold {} = {}",
                    q, d.3, d.4, LABELS[d.0 as usize - 1], KEYS[d.1 as usize - 1], lit(d.2)
                )))
            }
            (Class::Violation | Class::Refused, None) => {
                bad = bad.or(Some(format!("`{}` was refused although no other live node holds the value", q)))
            }
            _ => {}
        }
        if expect_refusal.is_none() && class == Class::Ok {
            g = wanted;
        }
        match class {
            Class::Violation => n_viol += 1,
            Class::Refused => n_refused += 1,
            _ => {}
        }
        if matches!(o, Op::Set(..) | Op::RemoveProp(..) | Op::RemoveLabel(..) | Op::Delete(..)) && !g.cons.is_empty() {
            changed_value = true;
        }
        if changed_value && matches!(o, Op::Create(..) | Op::Set(_, _, Some(_)) | Op::AddLabel(..)) {
            n_after_change += 1;
        }
        let seen = match observe(engine, &mut store) {
            Ok(v) => v,
            Err(m) => {
                bad = bad.or(Some(m));
                Vec::new()
            }
        };
        if bad.is_none() && seen != ref_obs(&g) {
            bad = Some(format!("after `{}` ({:?}) the graph is {:?}, expected {:?}", q, class, seen, ref_obs(&g)));
        }
        // independent of the reference bookkeeping: no duplicate pair in what the engine shows
        if bad.is_none() {
            for &(l, k) in &g.cons {
                let mut vals = BTreeSet::new();
                for n in &seen {
                    let has = if l == 1 { n.1 } else { n.2 };
                    let v = if k == 1 { n.3 } else { n.4 };
                    if has {
                        if let Some(v) = v {
                            if !vals.insert(v) {
                                bad = Some(format!("two live :{} nodes hold {} = {} after `{}`", LABELS[l as usize - 1], KEYS[k as usize - 1], lit(v), q));
                            }
                        }
                    }
                }
            }
        }
        obs_terms.push(g_obs(&class, &seen));
    }
    let human = format!("{} {}", kind, texts.join(" ; "));
    out.case(
        format!("({}, {})", g_list(ops.iter().map(g_op)), g_list(obs_terms)),
        human.clone(),
        n_viol + n_refused > 0,
    );
    out.count("histories");
    out.count_n("statements", ops.len() as u64);
    out.count_n("violations_refused", n_viol);
    out.count_n("constraint_creation_refused", n_refused);
    out.count_n("writes_after_value_change", n_after_change);
    if stub_prefix {
        out.count("with_stub_loaded_prefix");
    }
    if let Some(d) = bad {
        out.fail(idx, &human, &d, None);
    }
}

fn small_alphabet() -> Vec<Op> {
    vec![
        Op::Constraint(1, 1),
        Op::Create(vec![1], vec![(1, 1)]),
        Op::Create(vec![1], vec![(1, 2)]),
        Op::Create(vec![2], vec![(1, 1)]),
        Op::Set(1, 1, Some(1)),
        Op::Set(1, 1, Some(2)),
        Op::Set(2, 1, Some(1)),
        Op::Set(1, 1, None),
        Op::RemoveProp(1, 1),
        Op::AddLabel(2, 1),
        Op::RemoveLabel(1, 1),
        Op::Delete(1),
        Op::Delete(2),
    ]
}

fn random_op(r: &mut Rng, rich: bool) -> Op {
    let id = r.range(1, 4);
    let vmax = if rich { 6 } else { 3 };
    let key = if rich && r.chance(1, 4) { 2 } else { 1 };
    let lab = if r.chance(1, 4) { 2 } else { 1 };
    match r.below(20) {
        0 | 1 => Op::Constraint(lab, key),
        2..=6 => {
            let ls = match r.below(6) {
                0 => vec![],
                1 => vec![2],
                2 => vec![1, 2],
                _ => vec![1],
            };
            let mut ps = Vec::new();
            if r.chance(5, 6) {
                ps.push((1, r.range(1, vmax)));
            }
            if rich && r.chance(1, 3) {
                ps.push((2, r.range(1, vmax)));
            }
            Op::Create(ls, ps)
        }
        7..=11 => Op::Set(id, key, if r.chance(1, 8) { None } else { Some(r.range(1, vmax)) }),
        12 | 13 => Op::RemoveProp(id, key),
        14 | 15 => Op::AddLabel(id, lab),
        16 | 17 => Op::RemoveLabel(id, lab),
        _ => Op::Delete(id),
    }
}

fn main() {
    let args = parse_args();
    quiet_panics();
    // the value codes really are pairwise different keys, and equal to themselves
    for a in 1..=6u64 {
        for b in 1..=6u64 {
            let (x, y) = (pv_of(a), pv_of(b));
            assert_eq!(x == y, a == b, "PropertyValue equality on the domain ({} vs {})", lit(a), lit(b));
            assert_eq!(x.cmp(&y) == std::cmp::Ordering::Equal, a == b, "PropertyValue order on the domain");
        }
    }
    let mut out = Out::new(&args, "From Verif Require Import Constraint.", "Constraint.case", "Constraint.check_case", 300);
    out.rule = "after every statement of a history: refused iff the write would leave two live nodes of a constrained label with equal values (reference graph), a refused write changes nothing, an accepted write has exactly its effect, and the graph the engine shows has no such pair".into();
    let engine = QueryEngine::new();
    let alpha = small_alphabet();
    let n = alpha.len();

    // exhaustive short histories over the small alphabet
    let exhaustive_len = if args.thorough { 4 } else { 3 };
    for len in 1..=exhaustive_len {
        let total = n.pow(len as u32);
        for code in 0..total {
            let mut c = code;
            let mut ops = Vec::new();
            for _ in 0..len {
                ops.push(alpha[c % n].clone());
                c /= n;
            }
            run_case(&mut out, &engine, &ops, false, "exh");
        }
    }
    // sampled length-4/5 histories over the small alphabet
    let n4 = if args.thorough { 6000 } else { 1200 };
    for i in 0..n4 {
        let mut r = Rng::for_case(args.seed, i);
        let len = r.range(4, 5) + if args.thorough { 1 } else { 0 };
        let ops: Vec<Op> = (0..len).map(|_| r.pick(&alpha).clone()).collect();
        run_case(&mut out, &engine, &ops, r.chance(1, 6), "small");
    }
    // random longer histories over the rich domain (two labels, two keys, 1 vs 1.0, 'a' vs 'a ')
    let nr = if args.thorough { 12000 } else { 1500 };
    for i in 0..nr {
        let mut r = Rng::for_case(args.seed ^ 0xC11, 1_000_000 + i);
        let len = r.range(4, 14);
        let rich = r.chance(2, 3);
        let mut ops: Vec<Op> = Vec::new();
        // often: load first, constrain later (backfill), sometimes through the stub path
        let stub = r.chance(1, 4);
        if stub || r.chance(1, 3) {
            for _ in 0..r.range(1, 4) {
                ops.push(Op::Create(vec![if r.chance(3, 4) { 1 } else { 2 }], vec![(1, r.range(1, if rich { 6 } else { 3 }))]));
            }
            ops.push(Op::Constraint(1, 1));
        } else if r.chance(2, 3) {
            ops.push(Op::Constraint(1, 1));
        }
        for _ in 0..len {
            ops.push(random_op(&mut r, rich));
        }
        run_case(&mut out, &engine, &ops, stub, "rand");
    }
    out.finish();
}
