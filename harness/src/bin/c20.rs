//! C20 — RESP framing survives any TCP chunking and pipelining.
//!
//! (a) round trip: encode(v) ++ tail decodes to v leaving tail          (CDecode)
//! (b) every strict prefix of a frame: "more", buffer untouched          (CDecode)
//! (c) streams of frames (values, commands, inline commands) under every split of small
//!     streams and random splits of larger ones, through a replica of the server's decode
//!     loop on BytesMut                                                  (CStream)
//! (d) the same streams through a live TCP connection to RespServer (PING/ECHO so that
//!     replies identify the frames)
mod resp_common;
use resp_common::*;
use samyama::graph::GraphStore;
use samyama::protocol::resp::RespValue;
use samyama::protocol::{RespServer, ServerConfig};
use std::io::{Read, Write};
use std::sync::Arc;
use vh::*;

#[derive(Clone, Debug)]
enum Fr {
    Val(RespValue),
    Inline(Vec<u8>),
}

fn fr_bytes(f: &Fr) -> Vec<u8> {
    match f {
        Fr::Val(v) => impl_encode(v),
        Fr::Inline(l) => {
            let mut b = l.clone();
            b.extend_from_slice(b"\r\n");
            b
        }
    }
}

/// what the frame must decode to: the value itself; for an inline command the decoder's
/// own answer on the complete line alone (the generator checked that it is a whole frame)
fn fr_value(f: &Fr) -> RespValue {
    match f {
        Fr::Val(v) => v.clone(),
        Fr::Inline(l) => {
            let mut b = l.clone();
            b.extend_from_slice(b"\r\n");
            match decode_obs(&b) {
                Obs::Done(v, _) => v,
                o => panic!("inline generator produced a non-frame: {:?}", o),
            }
        }
    }
}

fn decode_case(out: &mut Out, input: &[u8], what: &str, expect: &dyn Fn(&Obs) -> Option<String>) {
    let idx = out.next_index();
    if !out.wants(idx) {
        out.skip();
        return;
    }
    let o = decode_obs(input);
    let human = format!("{} input=\"{}\" -> {}", what, show(input), show_obs(&o));
    let g = format!("CDecode {} {} (-1)%Z", gb(input), g_obs(&o));
    let i = out.case(g, human.clone(), input.len() > 3);
    if let Some(bad) = expect(&o) {
        out.fail(i, &human, &bad, None);
    }
}

fn stream_case(out: &mut Out, frames: &[Fr], chunks: &[Vec<u8>], what: &str) {
    let idx = out.next_index();
    if !out.wants(idx) {
        out.skip();
        return;
    }
    let mut conn = Conn::new();
    let mut evs = Vec::new();
    for c in chunks {
        evs.extend(conn.feed(c));
    }
    let fin = conn.buffer.to_vec();
    let human = format!(
        "{} frames={:?} chunks=[{}] -> events={:?} buffer=\"{}\"",
        what,
        frames,
        chunks.iter().map(|c| format!("\"{}\"", show(c))).collect::<Vec<_>>().join(", "),
        evs,
        show(&fin)
    );
    let g = format!(
        "CStream {} {} {}",
        g_list(chunks.iter().map(|c| gb(c))),
        g_list(evs.iter().map(g_event)),
        gb(&fin)
    );
    let i = out.case(g, human.clone(), chunks.len() > 1);
    // the property's own predicate: exactly these frames, in order, once each; nothing left
    let want: Vec<Event> = frames.iter().map(|f| Event::Frame(fr_value(f))).collect();
    if evs != want {
        out.fail(i, &human, &format!("decoded frames differ from the frames sent: want {:?}", want), None);
    } else if !fin.is_empty() {
        out.fail(i, &human, "bytes left in the connection buffer after the last frame", None);
    }
    out.count("streams");
    if chunks.len() > 1 {
        out.count("streams_split");
    }
    if frames.iter().any(|f| matches!(f, Fr::Inline(_))) {
        out.count("streams_with_inline");
    }
    if frames.len() > 1 {
        out.count("streams_pipelined");
    }
}

fn rand_frames(r: &mut Rng, max_frames: u64, small: bool) -> Vec<Fr> {
    let n = r.range(1, max_frames);
    (0..n)
        .map(|_| match r.below(10) {
            0 | 1 => Fr::Inline(rand_inline(r)),
            2 | 3 | 4 => Fr::Val(rand_command(r)),
            5 if small => Fr::Val(RespValue::BulkString(Some(rand_blob(r, 3)))),
            _ => Fr::Val(rand_value(r, if small { 1 } else { 3 }, false)),
        })
        .collect()
}

// ---------------------------------------------------------------- live TCP
struct Live {
    port: u16,
    _rt: tokio::runtime::Runtime,
}

fn start_server() -> Option<Live> {
    let port = {
        let l = std::net::TcpListener::bind("127.0.0.1:0").ok()?;
        l.local_addr().ok()?.port()
    };
    let rt = tokio::runtime::Builder::new_multi_thread().worker_threads(2).enable_all().build().ok()?;
    let store = Arc::new(tokio::sync::RwLock::new(GraphStore::new()));
    let cfg = ServerConfig { address: "127.0.0.1".to_string(), port, max_connections: 100, data_path: None };
    let server = RespServer::new(cfg, store);
    rt.spawn(async move {
        let _ = server.start().await;
    });
    for _ in 0..100 {
        if std::net::TcpStream::connect(("127.0.0.1", port)).is_ok() {
            return Some(Live { port, _rt: rt });
        }
        std::thread::sleep(std::time::Duration::from_millis(20));
    }
    None
}

/// PING / ECHO frames whose replies identify them
fn live_frames(r: &mut Rng) -> (Vec<Fr>, Vec<u8>) {
    let n = r.range(1, 5);
    let mut frames = Vec::new();
    let mut expect = Vec::new();
    for _ in 0..n {
        let payload: Vec<u8> = match r.below(3) {
            0 => rand_blob(r, 10),
            1 => Vec::new(),
            _ => format!("m{}", r.below(100000)).into_bytes(),
        };
        match r.below(4) {
            0 => {
                frames.push(Fr::Val(RespValue::Array(vec![RespValue::BulkString(Some(b"PING".to_vec()))])));
                ref_encode(&RespValue::SimpleString("PONG".into()), &mut expect);
            }
            1 => {
                frames.push(Fr::Inline(b"PING".to_vec()));
                ref_encode(&RespValue::SimpleString("PONG".into()), &mut expect);
            }
            2 => {
                let tag = format!("i{}", r.below(100000));
                frames.push(Fr::Inline(format!("ECHO \"{} x\"", tag).into_bytes()));
                ref_encode(&RespValue::BulkString(Some(format!("{} x", tag).into_bytes())), &mut expect);
            }
            _ => {
                frames.push(Fr::Val(RespValue::Array(vec![
                    RespValue::BulkString(Some(b"ECHO".to_vec())),
                    RespValue::BulkString(Some(payload.clone())),
                ])));
                ref_encode(&RespValue::BulkString(Some(payload)), &mut expect);
            }
        }
    }
    (frames, expect)
}

fn live_case(live: &Live, chunks: &[Vec<u8>], expect: &[u8]) -> Result<(), String> {
    let mut s = std::net::TcpStream::connect(("127.0.0.1", live.port)).map_err(|e| e.to_string())?;
    s.set_nodelay(true).map_err(|e| e.to_string())?;
    s.set_read_timeout(Some(std::time::Duration::from_millis(1500))).map_err(|e| e.to_string())?;
    for c in chunks {
        if c.is_empty() {
            continue;
        }
        s.write_all(c).map_err(|e| e.to_string())?;
        s.flush().map_err(|e| e.to_string())?;
        // give the server a chance to see this read on its own
        std::thread::sleep(std::time::Duration::from_micros(300));
    }
    let mut got = Vec::new();
    let mut buf = [0u8; 4096];
    while got.len() < expect.len() {
        match s.read(&mut buf) {
            Ok(0) => break,
            Ok(n) => got.extend_from_slice(&buf[..n]),
            Err(_) => break,
        }
    }
    // nothing more may follow
    s.set_read_timeout(Some(std::time::Duration::from_millis(30))).ok();
    if let Ok(n) = s.read(&mut buf) {
        got.extend_from_slice(&buf[..n]);
    }
    if got == expect {
        Ok(())
    } else {
        Err(format!("replies \"{}\" but expected \"{}\"", show(&got), show(expect)))
    }
}

fn main() {
    let args = parse_args();
    quiet_panics();
    let mut out = Out::new(&args, "From Verif Require Import Resp.", "Resp.case", "Resp.check_case", 250);
    out.rule = "round trip: random well-formed values (nesting <= 3, binary bulk payloads, empty/null bulk, i64 \
                extremes, multi-byte UTF-8) followed by a random tail; prefixes: every strict prefix of small \
                frames, random prefixes of larger ones; streams: 1-5 frames (values, commands, inline commands) \
                under every composition for streams <= 11 bytes, every 2- and 3-way cut for streams <= 24 bytes, \
                random cuts (with empty reads) otherwise, through the handle_connection loop replica; live TCP: \
                PING/ECHO streams with one write per chunk. Non-trivial = input longer than 3 bytes / more than \
                one chunk; distinct by case text."
        .to_string();
    let n_rt = if args.thorough { 6000 } else { 500 };
    let n_pre = if args.thorough { 3000 } else { 250 };
    let n_small = if args.thorough { 400 } else { 40 };
    let n_rand = if args.thorough { 15000 } else { 900 };
    let n_live = if args.thorough { 400 } else { 40 };

    // (a) round trip
    for c in 0..n_rt {
        let mut r = Rng::for_case(args.seed, c);
        let v = rand_value(&mut r, 3, false);
        let tail = match r.below(4) {
            0 => Vec::new(),
            1 => impl_encode(&rand_value(&mut r, 1, false)),
            _ => rand_blob(&mut r, 6),
        };
        let mut input = impl_encode(&v);
        let enc_len = input.len();
        input.extend_from_slice(&tail);
        out.count("roundtrip");
        if depth(&v) >= 2 {
            out.count("roundtrip_nested");
        }
        decode_case(&mut out, &input, "roundtrip", &|o| match o {
            Obs::Done(v2, rest) if *v2 == v && *rest == tail => None,
            _ => Some(format!("decode(encode(v) ++ tail) is not Done(v, tail) (frame is {} bytes)", enc_len)),
        });
    }
    // (b) strict prefixes
    for c in 0..n_pre {
        let mut r = Rng::for_case(args.seed, 1_000_000 + c);
        let f = if r.chance(1, 4) { Fr::Inline(rand_inline(&mut r)) } else { Fr::Val(rand_value(&mut r, 2, false)) };
        let enc = fr_bytes(&f);
        let cuts: Vec<usize> = if enc.len() <= 14 { (0..enc.len()).collect() } else { (0..6).map(|_| r.below(enc.len() as u64) as usize).collect() };
        for k in cuts {
            let p = enc[..k].to_vec();
            out.count("prefixes");
            if k > 0 && matches!(enc[0], b'$' | b'*') && enc[..k].windows(2).any(|w| w == b"\r\n") {
                out.count("prefix_past_header");
            }
            decode_case(&mut out, &p, "prefix", &|o| match o {
                Obs::More(_, rest) if *rest == p => None,
                Obs::More(_, _) => Some("decoder asked for more but changed the buffer".to_string()),
                _ => Some("strict prefix of a well-formed frame did not yield 'more'".to_string()),
            });
        }
    }
    // (c) streams, small: exhaustive splits
    for c in 0..n_small {
        let mut r = Rng::for_case(args.seed, 2_000_000 + c);
        let frames = rand_frames(&mut r, 2, true);
        let stream: Vec<u8> = frames.iter().flat_map(fr_bytes).collect();
        let n = stream.len();
        if n <= 11 {
            for mask in 0..(1u32 << (n - 1)) {
                let cuts: Vec<usize> = (1..n).filter(|i| mask & (1 << (i - 1)) != 0).collect();
                stream_case(&mut out, &frames, &cut(&stream, &cuts), "all-compositions");
            }
        } else if n <= 24 {
            for a in 1..n {
                stream_case(&mut out, &frames, &cut(&stream, &[a]), "all-2-cuts");
                if c % 4 == 0 {
                    for b in a..n {
                        stream_case(&mut out, &frames, &cut(&stream, &[a, b]), "all-3-cuts");
                    }
                }
            }
        } else {
            for _ in 0..8 {
                let a = r.range(1, n as u64 - 1) as usize;
                stream_case(&mut out, &frames, &cut(&stream, &[a]), "2-cut");
            }
        }
    }
    // (c) streams, random
    for c in 0..n_rand {
        let mut r = Rng::for_case(args.seed, 3_000_000 + c);
        let frames = rand_frames(&mut r, 5, false);
        let stream: Vec<u8> = frames.iter().flat_map(fr_bytes).collect();
        let k = match r.below(5) {
            0 => 0,
            1 => stream.len().min(40) as u64, // near byte-at-a-time
            _ => r.range(1, 6),
        };
        let mut cuts: Vec<usize> = (0..k).map(|_| r.below(stream.len() as u64 + 1) as usize).collect();
        cuts.sort();
        stream_case(&mut out, &frames, &cut(&stream, &cuts), "random-cuts");
    }
    // (d) live TCP connection
    if args.only.is_none() {
        match start_server() {
            None => out.notes.push("live TCP: could not start RespServer on a loopback port".to_string()),
            Some(live) => {
                for c in 0..n_live {
                    let mut r = Rng::for_case(args.seed, 4_000_000 + c);
                    let (frames, expect) = live_frames(&mut r);
                    let stream: Vec<u8> = frames.iter().flat_map(fr_bytes).collect();
                    let k = r.range(0, 5);
                    let mut cuts: Vec<usize> = (0..k).map(|_| r.range(1, stream.len() as u64 - 1) as usize).collect();
                    cuts.sort();
                    cuts.dedup();
                    let chunks = cut(&stream, &cuts);
                    // the same stream also goes through the loop replica + model
                    let before = out.next_index();
                    stream_case(&mut out, &frames, &chunks, "live");
                    out.count("live_tcp_streams");
                    if let Err(e) = live_case(&live, &chunks, &expect) {
                        let human = format!(
                            "live TCP chunks=[{}]",
                            chunks.iter().map(|c| format!("\"{}\"", show(c))).collect::<Vec<_>>().join(", ")
                        );
                        out.fail(before, &human, &format!("live connection: {}", e), None);
                    }
                }
            }
        }
    }
    out.finish();
}
