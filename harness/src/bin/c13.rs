//! C13 — a failed snapshot import leaves the store unchanged; a successful one adds exactly
//! the snapshot. Stores that already contain matching and non-matching nodes receive chains
//! of imports: intact snapshots, every truncation point of the compressed stream, cuts of
//! the uncompressed line stream (re-gzipped), single-byte corruptions, a dangling edge
//! record appended, with and without dedup keys. Full dump before/after; every import is
//! also replayed by the Coq model (SnapshotJson.check_c13).
#[path = "snap_common/mod.rs"]
mod snap_common;
use samyama::graph::{GraphStore, NodeId, PropertyValue};
use samyama::snapshot::{export_tenant, import_tenant_with_dedup};
use snap_common::*;
use std::collections::HashSet;
use vh::*;

const NAMES: [&str; 4] = ["x", "y", "z", "w"];
const NAME_VARIANTS: [&str; 8] = ["x", "X ", " y", "y", "z", "q", "Z", "r"];

/// existing store: distinct names per store, so that the dedup index is unambiguous
fn base_store(r: &mut Rng) -> GraphStore {
    let mut s = GraphStore::new();
    let n = r.below(4);
    let mut ids = Vec::new();
    for i in 0..n {
        let id = s.create_node(*r.pick(&["P", "Q"]));
        s.set_node_property("default", id, "name", PropertyValue::String(NAMES[i as usize].to_string())).unwrap();
        if r.chance(1, 2) {
            s.set_node_property("default", id, "v", PropertyValue::Integer(i as i64)).unwrap();
        }
        if r.chance(1, 4) {
            s.set_node_property("default", id, "m", PropertyValue::Array(vec![PropertyValue::Integer(1)])).unwrap();
        }
        ids.push(id);
    }
    if ids.len() >= 2 && r.chance(1, 2) {
        s.create_edge(ids[0], ids[1], "R").unwrap();
    }
    s
}

fn snapshot_bytes(r: &mut Rng) -> Vec<u8> {
    let mut s = GraphStore::new();
    let n = r.range(1, 4);
    let mut ids = Vec::new();
    for _ in 0..n {
        let id = s.create_node(*r.pick(&["P", "Q"]));
        if r.chance(1, 3) {
            let _ = s.add_label_to_node("default", id, "S");
        }
        s.set_node_property("default", id, "name", PropertyValue::String(r.pick(&NAME_VARIANTS).to_string())).unwrap();
        if r.chance(1, 2) {
            s.set_node_property("default", id, "extra", gen_value(r, 1, false)).unwrap();
        }
        if r.chance(1, 3) {
            s.set_node_property("default", id, "v", PropertyValue::Integer(r.below(3) as i64)).unwrap();
        }
        ids.push(id);
    }
    for _ in 0..r.below(3) {
        let a = *r.pick(&ids);
        let b = *r.pick(&ids);
        if r.chance(1, 2) {
            s.create_edge(a, b, "R").unwrap();
        } else {
            let mut p = std::collections::HashMap::new();
            p.insert("w".to_string(), PropertyValue::Integer(r.below(9) as i64));
            s.create_edge_with_properties(a, b, "T", p).unwrap();
        }
    }
    let mut bytes = Vec::new();
    export_tenant(&s, &mut bytes).unwrap();
    bytes
}

fn dval_json(v: &serde_json::Value) -> Option<String> {
    match v {
        serde_json::Value::String(s) => Some(norm_dedup(s)),
        serde_json::Value::Number(n) => Some(n.to_string()),
        _ => None,
    }
}
fn dval_pv(v: &PropertyValue) -> Option<String> {
    match v {
        PropertyValue::String(s) => Some(norm_dedup(s)),
        PropertyValue::Integer(i) => Some(i.to_string()),
        _ => None,
    }
}

/// Did a node record before the failure merge into an existing (or earlier) node?
/// (a plain re-statement of the dedup rule, used only to name the recorded class)
fn merged_before_failure(before: &Dump, header: &Header, lines: &[Line], keys: &[String]) -> bool {
    if keys.is_empty() {
        return false;
    }
    let labels = match header {
        Header::Ok(_, l) => l.clone(),
        Header::Bad => return false,
    };
    let mut index: HashSet<(String, String, String)> = HashSet::new();
    for l in &labels {
        for n in before.nodes.iter().filter(|n| n.labels.contains(l)) {
            for k in keys {
                for m in [&n.row, &n.col] {
                    if let Some(v) = m.get(k).and_then(dval_pv) {
                        index.insert((l.clone(), k.clone(), v));
                    }
                }
            }
        }
    }
    for line in lines {
        if let Line::Node(_, nl, props) = line {
            let sl: Vec<String> = if nl.is_empty() { vec![String::new()] } else { nl.clone() };
            let mut hit = false;
            for k in keys {
                if let Some(v) = props.get(k).and_then(dval_json) {
                    if sl.iter().any(|l| index.contains(&(l.clone(), k.clone(), v.clone()))) {
                        hit = true;
                        break;
                    }
                }
            }
            if hit {
                return true;
            }
            for k in keys {
                if let Some(v) = props.get(k).and_then(dval_json) {
                    for l in &sl {
                        index.insert((l.clone(), k.clone(), v.clone()));
                    }
                }
            }
        }
    }
    false
}

/// Two existing nodes share a label and a normalised value of a dedup key: which of them the
/// importer's index keeps depends on hash-set iteration order, so the outcome is not a
/// function of the inputs (the model iterates in id order). Such imports are not generated.
fn ambiguous(before: &Dump, keys: &[String]) -> bool {
    let mut seen: std::collections::HashMap<(String, String, String), u64> = std::collections::HashMap::new();
    for n in &before.nodes {
        for l in &n.labels {
            for k in keys {
                for m in [&n.row, &n.col] {
                    if let Some(v) = m.get(k).and_then(dval_pv) {
                        if let Some(prev) = seen.insert((l.clone(), k.clone(), v), n.id) {
                            if prev != n.id {
                                return true;
                            }
                        }
                    }
                }
            }
        }
    }
    false
}

struct Step {
    bytes: Vec<u8>,
    keys: Vec<String>,
    what: String,
}

fn mutate(r: &mut Rng, good: &[u8]) -> (Vec<u8>, String) {
    match r.below(7) {
        0 | 1 => (good.to_vec(), "intact".into()),
        2 => {
            let k = r.below(good.len() as u64 + 1) as usize;
            (good[..k].to_vec(), format!("truncated at byte {} of {}", k, good.len()))
        }
        3 => {
            let mut b = good.to_vec();
            let k = r.below(b.len() as u64) as usize;
            b[k] ^= 1 << r.below(8);
            (b, format!("byte {} corrupted", k))
        }
        4 | 5 => {
            let text = gunzip(good).unwrap();
            let k = r.below(text.len() as u64 + 1) as usize;
            (gzip(&text[..k], 3), format!("line stream cut at {} of {}", k, text.len()))
        }
        _ => {
            let mut text = gunzip(good).unwrap();
            text.extend_from_slice(b"{\"t\":\"e\",\"id\":999,\"src\":777,\"tgt\":778,\"type\":\"R\",\"props\":{}}\n");
            (gzip(&text, 3), "dangling edge record appended".into())
        }
    }
}

fn run_chain(out: &mut Out, mut store: GraphStore, steps: Vec<Step>, tag: &str) {
    let idx = out.next_index();
    if !out.wants(idx) {
        out.skip();
        return;
    }
    let start = dump(&store);
    let next = start.nodes.iter().map(|n| n.id).max().unwrap_or(0) + 1;
    let mut obs = Vec::new();
    let mut human = format!("[{}] start: {} nodes, {} relationships", tag, start.nodes.len(), start.edges.len());
    let mut verdict: Option<(String, Option<&'static str>)> = None;
    for st in &steps {
        let before = dump(&store);
        if ambiguous(&before, &st.keys) {
            out.count("ambiguous_dedup_target_skipped");
            break;
        }
        let (header, lines) = read_stream(&st.bytes);
        let keys: Vec<&str> = st.keys.iter().map(|s| s.as_str()).collect();
        let res = catch(std::panic::AssertUnwindSafe(|| {
            import_tenant_with_dedup(&mut store, std::io::Cursor::new(&st.bytes), &keys).map(|s| (s.node_count, s.merged_count, s.edge_count)).map_err(|e| e.to_string())
        }));
        let after = dump(&store);
        human.push_str(&format!("; import({}, keys {:?})", st.what, st.keys));
        let result = match &res {
            Ok(Ok((c, m, _))) => Some((*c, *m)),
            _ => None,
        };
        obs.push(g_import_obs(&st.keys, &header, &lines, &before, result, &after));
        let n_node_recs = lines.iter().filter(|l| matches!(l, Line::Node(..))).count() as u64;
        let n_edge_recs = lines.iter().filter(|l| matches!(l, Line::Edge(..))).count() as u64;
        match res {
            Err(p) => {
                if verdict.is_none() {
                    verdict = Some((format!("import panicked: {}", p), None));
                }
            }
            Ok(Err(e)) => {
                out.count("failed_import");
                human.push_str(&format!(" -> Err({})", e.chars().take(40).collect::<String>()));
                let merged = merged_before_failure(&before, &header, &lines, &st.keys);
                if merged {
                    out.count("failed_after_merge");
                }
                if let Err(d) = same_graph(&before, &after) {
                    if verdict.is_none() {
                        verdict = Some((format!("failed import changed the store: {}", d), if merged { Some("merge_before_failure") } else { None }));
                    }
                } else {
                    out.count("failed_import_store_unchanged");
                }
            }
            Ok(Ok((c, m, ec))) => {
                out.count("successful_import");
                if m > 0 {
                    out.count("successful_import_with_merge");
                }
                human.push_str(&format!(" -> Ok(created {}, merged {})", c, m));
                // exactly the snapshot: one created or merged node per node record, one
                // relationship per edge record, everything that was there is still there
                // (a property stored as null counts as absent: a merge may fill it)
                let mut why = None;
                if c + m != n_node_recs || ec != n_edge_recs {
                    why = Some(format!("{} created + {} merged for {} node records, {} edges for {} edge records", c, m, n_node_recs, ec, n_edge_recs));
                } else if after.nodes.len() as u64 != before.nodes.len() as u64 + c {
                    why = Some(format!("{} nodes became {} with {} created", before.nodes.len(), after.nodes.len(), c));
                } else if after.edges.len() as u64 != before.edges.len() as u64 + ec {
                    why = Some(format!("{} relationships became {} with {} imported", before.edges.len(), after.edges.len(), ec));
                } else {
                    for n in &before.nodes {
                        match after.nodes.iter().find(|x| x.id == n.id) {
                            None => why = Some(format!("node {} disappeared", n.id)),
                            Some(x) => {
                                let kept = n.labels.iter().all(|l| x.labels.contains(l)) && n.merged.iter().all(|(k, v)| matches!(v, PropertyValue::Null) || x.merged.get(k).map_or(false, |w| pv_same(v, w)));
                                if !kept {
                                    why = Some(format!("node {} lost a label or a property value: {:?} -> {:?}", n.id, n, x));
                                } else if st.keys.is_empty() && (n.labels != x.labels || !pmap_same(&n.merged, &x.merged)) {
                                    why = Some(format!("node {} changed without dedup keys", n.id));
                                }
                            }
                        }
                    }
                    if why.is_none() {
                        if let Err(d) = label_reads_agree(&after) {
                            why = Some(d);
                        }
                    }
                }
                if let Some(w) = why {
                    if verdict.is_none() {
                        verdict = Some((format!("successful import is not exactly the snapshot: {}", w), None));
                    }
                }
            }
        }
    }
    let g = format!("({}, {})", g_dump(&start, &[], next), g_list(obs));
    out.case(g, human.clone(), steps.len() >= 2);
    if let Some((d, class)) = verdict {
        if let Some(c) = class {
            out.count(&format!("class_{}", c));
        }
        out.fail(idx, &human, &d, class);
    }
}

fn replay_known(out: &mut Out) {
    // stored witness: existing :P {name:"x"}; snapshot with :P:S {name:"x", extra:7} and a
    // self relationship, followed by a dangling edge record; dedup on name
    let mut s = GraphStore::new();
    let a = s.create_node("P");
    s.set_node_property("default", a, "name", PropertyValue::String("x".into())).unwrap();
    let mut src = GraphStore::new();
    let p = src.create_node("P");
    src.set_node_property("default", p, "name", PropertyValue::String("x".into())).unwrap();
    src.set_node_property("default", p, "extra", PropertyValue::Integer(7)).unwrap();
    src.add_label_to_node("default", p, "S").unwrap();
    src.create_edge(p, p, "SELF").unwrap();
    let mut b = Vec::new();
    export_tenant(&src, &mut b).unwrap();
    let mut text = gunzip(&b).unwrap();
    text.extend_from_slice(b"{\"t\":\"e\",\"id\":9,\"src\":77,\"tgt\":78,\"type\":\"R\",\"props\":{}}\n");
    let bytes = gzip(&text, 3);
    let before = dump(&s);
    let r = import_tenant_with_dedup(&mut s, std::io::Cursor::new(&bytes), &["name"]);
    let after = dump(&s);
    let same = same_graph(&before, &after);
    out.known.push(KnownReplay {
        class: "merge_before_failure".into(),
        still_fails: r.is_err() && same.is_err(),
        detail: same.err().unwrap_or_default(),
    });
    let _ = NodeId::new(1);
}

fn main() {
    let args = parse_args();
    quiet_panics();
    let mut out = Out::new(&args, "From Verif Require Import SnapshotJson.", "SnapshotJson.c13_case", "SnapshotJson.check_c13", if args.thorough { 120 } else { 40 });
    out.rule = "failed import: full dump unchanged (labels, merged properties, relationship bag, label lookup, hierarchy declarations); successful import: exactly one created-or-merged node per node record and one relationship per edge record, existing content kept; every import = model import".into();
    replay_known(&mut out);
    // every truncation point of the compressed stream and of the line stream, for two snapshots
    let mut r = Rng::new(args.seed ^ 0x5eed);
    for round in 0..2u64 {
        let good = snapshot_bytes(&mut r);
        let keys: Vec<String> = if round == 0 { vec![] } else { vec!["name".to_string()] };
        let stride = if args.thorough { 1 } else { 2 };
        for k in (0..=good.len()).step_by(stride) {
            let mut rr = Rng::new(args.seed ^ (round + 1));
            let store = base_store(&mut rr);
            run_chain(&mut out, store, vec![Step { bytes: good[..k].to_vec(), keys: keys.clone(), what: format!("truncated at byte {} of {}", k, good.len()) }], "every-truncation");
            out.count("compressed_truncation_point");
        }
        let text = gunzip(&good).unwrap();
        let stride = if args.thorough { 2 } else { 9 };
        for k in (0..=text.len()).step_by(stride) {
            let mut rr = Rng::new(args.seed ^ (round + 1));
            let store = base_store(&mut rr);
            run_chain(&mut out, store, vec![Step { bytes: gzip(&text[..k], 3), keys: keys.clone(), what: format!("line stream cut at {} of {}", k, text.len()) }], "every-line-cut");
            out.count("line_stream_cut_point");
        }
    }
    let n = if args.thorough { 4000 } else { 400 };
    for i in 0..n {
        let mut r = Rng::for_case(args.seed, i);
        let store = base_store(&mut r);
        let n_steps = r.range(1, 3);
        let mut steps = Vec::new();
        for _ in 0..n_steps {
            let good = snapshot_bytes(&mut r);
            let (bytes, what) = mutate(&mut r, &good);
            let keys: Vec<String> = match r.below(4) {
                0 => vec![],
                1 | 2 => vec!["name".to_string()],
                _ => vec!["v".to_string(), "name".to_string()],
            };
            steps.push(Step { bytes, keys, what });
        }
        run_chain(&mut out, store, steps, "random");
    }
    out.finish();
}
