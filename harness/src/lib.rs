//! Shared pieces of the correspondence harness.
//!
//! Each property has its own binary (src/bin/cNN.rs). A binary generates cases
//! from `--seed`, runs the *implementation* (the /repo working tree this crate
//! links) on each, evaluates the property's own predicate on what the
//! implementation did, and writes
//!   <out>/cases_<k>.v    Gallina: the cases with the implementation's observations,
//!                        ending in `Eval vm_compute in (failing <check> <base> cases).`
//!   <out>/cases.txt      one human-readable line per case (index TAB text)
//!   <out>/summary.json   counts, distribution, samples, predicate failures, known findings
//! bin/check then lets coqc decide which cases the *model* disagrees with.

use std::collections::{BTreeMap, HashSet};
use std::fmt::Write as _;
use std::io::Write as _;
use std::path::PathBuf;

/// SplitMix64: every random choice derives from one state so cases replay exactly.
#[derive(Clone, Debug)]
pub struct Rng(pub u64);

impl Rng {
    pub fn new(seed: u64) -> Self {
        Rng(seed.wrapping_mul(0x9E37_79B9_7F4A_7C15).wrapping_add(0x1234_5678_9ABC_DEF1))
    }
    /// Independent stream for case `i` of run `seed`.
    pub fn for_case(seed: u64, i: u64) -> Self {
        let mut r = Rng::new(seed ^ i.wrapping_mul(0xD6E8_FEB8_6659_FD93));
        r.next();
        r
    }
    pub fn next(&mut self) -> u64 {
        self.0 = self.0.wrapping_add(0x9E37_79B9_7F4A_7C15);
        let mut z = self.0;
        z = (z ^ (z >> 30)).wrapping_mul(0xBF58_476D_1CE4_E5B9);
        z = (z ^ (z >> 27)).wrapping_mul(0x94D0_49BB_1331_11EB);
        z ^ (z >> 31)
    }
    /// uniform in 0..n (n > 0)
    pub fn below(&mut self, n: u64) -> u64 {
        self.next() % n
    }
    pub fn range(&mut self, lo: u64, hi_incl: u64) -> u64 {
        lo + self.below(hi_incl - lo + 1)
    }
    pub fn chance(&mut self, num: u64, den: u64) -> bool {
        self.below(den) < num
    }
    pub fn pick<'a, T>(&mut self, xs: &'a [T]) -> &'a T {
        &xs[self.below(xs.len() as u64) as usize]
    }
}

// ---------- Gallina term printers ----------
pub fn g_n(x: u64) -> String {
    format!("{}", x)
}
pub fn g_n128(x: u128) -> String {
    format!("{}", x)
}
pub fn g_z(x: i128) -> String {
    if x < 0 {
        format!("({})%Z", x)
    } else {
        format!("{}%Z", x)
    }
}
pub fn g_bool(b: bool) -> &'static str {
    if b {
        "true"
    } else {
        "false"
    }
}
pub fn g_list<I: IntoIterator<Item = String>>(items: I) -> String {
    let v: Vec<String> = items.into_iter().collect();
    format!("[{}]", v.join("; "))
}
/// byte string as `list N`
pub fn g_bytes(b: &[u8]) -> String {
    g_list(b.iter().map(|x| format!("{}", x)))
}
pub fn g_opt(o: Option<String>) -> String {
    match o {
        Some(s) => format!("(Some {})", s),
        None => "None".to_string(),
    }
}
pub fn g_pair(a: &str, b: &str) -> String {
    format!("({}, {})", a, b)
}
pub fn hex(b: &[u8]) -> String {
    let mut s = String::new();
    for x in b {
        let _ = write!(s, "{:02x}", x);
    }
    s
}

// ---------- command line ----------
#[derive(Clone, Debug)]
pub struct Args {
    pub seed: u64,
    pub thorough: bool,
    pub out: PathBuf,
    /// run only this case index (replay)
    pub only: Option<u64>,
}

pub fn parse_args() -> Args {
    let mut a = Args { seed: 1, thorough: false, out: PathBuf::from("."), only: None };
    let v: Vec<String> = std::env::args().collect();
    let mut i = 1;
    while i < v.len() {
        match v[i].as_str() {
            "--seed" => {
                a.seed = v[i + 1].parse().expect("seed");
                i += 1;
            }
            "--tier" => {
                a.thorough = v[i + 1] == "thorough";
                i += 1;
            }
            "--out" => {
                a.out = PathBuf::from(&v[i + 1]);
                i += 1;
            }
            "--only" => {
                a.only = Some(v[i + 1].parse().expect("only"));
                i += 1;
            }
            other => panic!("unknown argument {}", other),
        }
        i += 1;
    }
    std::fs::create_dir_all(&a.out).expect("mkdir out");
    a
}

// ---------- case output ----------
pub struct PredFailure {
    pub index: u64,
    pub case: String,
    pub detail: String,
    /// name of the known-finding class this failure belongs to, if any
    pub known_class: Option<String>,
}

pub struct KnownReplay {
    pub class: String,
    pub still_fails: bool,
    pub detail: String,
}

pub struct Out {
    args: Args,
    header: String,
    case_type: String,
    check_fn: String,
    shard_size: usize,
    cur: Vec<String>,
    cur_base: u64,
    next_index: u64,
    shard_no: usize,
    txt: std::io::BufWriter<std::fs::File>,
    seen: HashSet<u64>,
    pub evaluations: u64,
    pub nontrivial: u64,
    pub rule: String,
    pub samples: Vec<String>,
    pub dist: BTreeMap<String, u64>,
    pub failures: Vec<PredFailure>,
    pub known: Vec<KnownReplay>,
    pub notes: Vec<String>,
}

fn fnv(s: &str) -> u64 {
    let mut h: u64 = 0xcbf29ce484222325;
    for b in s.as_bytes() {
        h ^= *b as u64;
        h = h.wrapping_mul(0x100000001b3);
    }
    h
}

impl Out {
    /// `imports`: Coq `Require` lines for the shard files; `case_type`/`check_fn`: Gallina names.
    pub fn new(args: &Args, imports: &str, case_type: &str, check_fn: &str, shard_size: usize) -> Self {
        let txt = std::io::BufWriter::new(
            std::fs::File::create(args.out.join("cases.txt")).expect("cases.txt"),
        );
        Out {
            args: args.clone(),
            header: format!(
                "From Coq Require Import List NArith ZArith Bool.\nFrom Verif Require Import CheckLib.\n{}\nImport ListNotations.\nOpen Scope N_scope.\n",
                imports
            ),
            case_type: case_type.to_string(),
            check_fn: check_fn.to_string(),
            shard_size,
            cur: Vec::new(),
            cur_base: 0,
            next_index: 0,
            shard_no: 0,
            txt,
            seen: HashSet::new(),
            evaluations: 0,
            nontrivial: 0,
            rule: String::new(),
            samples: Vec::new(),
            dist: BTreeMap::new(),
            failures: Vec::new(),
            known: Vec::new(),
            notes: Vec::new(),
        }
    }

    pub fn wants(&self, index: u64) -> bool {
        self.args.only.map_or(true, |o| o == index)
    }

    pub fn count(&mut self, key: &str) {
        *self.dist.entry(key.to_string()).or_insert(0) += 1;
    }
    pub fn count_n(&mut self, key: &str, n: u64) {
        *self.dist.entry(key.to_string()).or_insert(0) += n;
    }

    /// Record one case. `gallina` is the Coq term (input + implementation observations),
    /// `human` the readable form. Returns the case index.
    pub fn case(&mut self, gallina: String, human: String, nontrivial: bool) -> u64 {
        let idx = self.next_index;
        self.next_index += 1;
        self.evaluations += 1;
        if self.seen.insert(fnv(&human)) && nontrivial {
            self.nontrivial += 1;
        }
        if self.samples.len() < 5 || (idx % 97 == 0 && self.samples.len() < 12) {
            let mut h = human.clone();
            if h.len() > 600 {
                let mut cut = 600;
                while !h.is_char_boundary(cut) {
                    cut -= 1;
                }
                h.truncate(cut);
                h.push_str("…");
            }
            self.samples.push(h);
        }
        let _ = writeln!(self.txt, "{}\t{}", idx, human);
        if self.cur.is_empty() {
            self.cur_base = idx;
        }
        self.cur.push(gallina);
        if self.cur.len() >= self.shard_size {
            self.flush_shard();
        }
        idx
    }

    /// Skip an index (used with --only so indices stay aligned with the full run).
    pub fn skip(&mut self) -> u64 {
        if !self.cur.is_empty() {
            self.flush_shard();
        }
        let idx = self.next_index;
        self.next_index += 1;
        idx
    }

    pub fn next_index(&self) -> u64 {
        self.next_index
    }

    pub fn fail(&mut self, index: u64, case: &str, detail: &str, known_class: Option<&str>) {
        self.failures.push(PredFailure {
            index,
            case: case.to_string(),
            detail: detail.to_string(),
            known_class: known_class.map(|s| s.to_string()),
        });
    }

    fn flush_shard(&mut self) {
        if self.cur.is_empty() {
            return;
        }
        let p = self.args.out.join(format!("cases_{:04}.v", self.shard_no));
        let mut f = std::io::BufWriter::new(std::fs::File::create(p).expect("shard"));
        let _ = f.write_all(self.header.as_bytes());
        let _ = writeln!(f, "Definition cases : list {} := [", self.case_type);
        for (i, c) in self.cur.iter().enumerate() {
            let _ = writeln!(f, "{}{}", c, if i + 1 < self.cur.len() { ";" } else { "" });
        }
        let _ = writeln!(f, "].");
        let _ = writeln!(
            f,
            "Eval vm_compute in (failing {} {}%N cases).",
            self.check_fn, self.cur_base
        );
        self.cur.clear();
        self.shard_no += 1;
    }

    pub fn finish(mut self) {
        self.flush_shard();
        let _ = self.txt.flush();
        let mut dist = serde_json::Map::new();
        for (k, v) in &self.dist {
            dist.insert(k.clone(), serde_json::json!(v));
        }
        let failures: Vec<serde_json::Value> = self
            .failures
            .iter()
            .map(|f| {
                serde_json::json!({"index": f.index, "case": f.case, "detail": f.detail,
                                   "known_class": f.known_class})
            })
            .collect();
        let known: Vec<serde_json::Value> = self
            .known
            .iter()
            .map(|k| serde_json::json!({"class": k.class, "still_fails": k.still_fails, "detail": k.detail}))
            .collect();
        let j = serde_json::json!({
            "evaluations": self.evaluations,
            "distinct_nontrivial": self.nontrivial,
            "rule": self.rule,
            "samples": self.samples,
            "distribution": dist,
            "predicate_failures": failures,
            "known": known,
            "shards": self.shard_no,
            "notes": self.notes,
        });
        std::fs::write(self.args.out.join("summary.json"), serde_json::to_string_pretty(&j).unwrap())
            .expect("summary");
    }
}

/// Run `f` catching panics; the panic message is returned on failure.
pub fn catch<T, F: FnOnce() -> T + std::panic::UnwindSafe>(f: F) -> Result<T, String> {
    match std::panic::catch_unwind(f) {
        Ok(v) => Ok(v),
        Err(e) => {
            if let Some(s) = e.downcast_ref::<&str>() {
                Err(s.to_string())
            } else if let Some(s) = e.downcast_ref::<String>() {
                Err(s.clone())
            } else {
                Err("panic".to_string())
            }
        }
    }
}

/// Silence the default panic printer (we catch panics on purpose).
pub fn quiet_panics() {
    std::panic::set_hook(Box::new(|_| {}));
}
